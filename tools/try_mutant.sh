#!/bin/bash
# tools/try_mutant.sh <patch.diff> <ID> [tier]   apply to /repo, run the check, undo
P=$1; ID=$2; TIER=${3:-quick}
cd /repo || exit 2
if [ -n "$(git status --porcelain)" ]; then echo "/repo not clean"; exit 2; fi
git apply "$P" || { echo "patch does not apply"; exit 2; }
/verif/check "$ID" "$TIER" > /tmp/mut_out.txt 2>&1; rc=$?
git -C /repo checkout -- . ; git -C /repo clean -fdq
grep -a -E "^(VIOLATION|KNOWN-FINDING|BROKEN|BUILD-FAILED|C[0-9]+ )|^  \[" /tmp/mut_out.txt | cut -c1-400 | head -${4:-8}
echo "exit=$rc"
