#!/usr/bin/env python3
# tools/seed_prompt.py <Cxx> <worktree>: writes <worktree>/_PROMPT.md, the whole brief a seeding sub-agent gets
# (the property text and its scratch worktree; nothing from /verif).
import json, sys
P, WT = sys.argv[1], sys.argv[2]
for l in open('/verif/properties.jsonl'):
    d = json.loads(l)
    if d['id'] == P:
        break
T = '''You are working in a scratch git worktree of the Go project goghcrow/yae at @WT@ — a small statically typed
expression language for Go: regex lexer (parser/lexer), Pratt parser (parser), desugarer (trans), unification based type
checker (types), three back ends (vm = bytecode VM with two dispatch loops, closure, interp), host-data conversion (conv),
built-in functions (fun), power-assert debug mode (debug), SQL generation (ext). facade.go is the public API.
Work ONLY inside @WT@. Never read or write /repo or /verif. There is no network. Do NOT use `git stash` (the stash is
shared with other worktrees); undo a change with `git checkout -- .` or `git apply -R`.

Every shell call needs:  export GOFLAGS=-mod=mod GOPROXY=off GOSUMDB=off GOTOOLCHAIN=local
Existing test suite:     cd @WT@ && go test -vet=off -count=1 ./...
(The suite regenerates vm/callthread.go from vm/switchthread.go and vm/gen.go, fun/gen.go; that is normal. If you edit
vm/switchthread.go, run the suite before taking the diff so the regenerated vm/callthread.go is part of your patch.
Files named verif_hooks.go are behind a build tag and can be ignored.)

THE PROPERTY (id @P@): @TITLE@
Statement: @STATEMENT@
Quantified over: @QUANT@

YOUR TASK: produce TWO independent source changes ("mutations") to the project's non-test code. Each one must
 (a) still compile (go build ./...),
 (b) keep the ENTIRE existing test suite passing, unedited,
 (c) break the property above, and
 (d) be HARD TO HIT: it must need at least two or three specific conditions to coincide (for example a particular value
     AND a particular size AND a particular position; or a specific sequence of three API calls; or a rare combination of
     two language features), so that even a test generator producing tens of thousands of random programs, values or call
     sequences would be unlikely to trigger it by chance. State those conditions precisely in the note.
They should still be realistic: the kind of bug a maintainer could plausibly introduce during a refactor, optimisation,
micro-benchmark-driven "fast path", cache, or simplification. Small (1-30 changed lines). The two changes must use
different mechanisms in different places.

For each change k = 1, 2 write into @WT@/_out/ :
  patch<k>.diff    git diff against HEAD (must apply with `git apply` from the repository root)
  demo<k>_test.go  a Go test file, `package verifdemo`, meant to be placed in a new directory verifdemo/ at the
                   repository root; it uses only the module's exported API (import path github.com/goghcrow/yae/...);
                   it must FAIL with the change applied and PASS without it
  note<k>.md       3-8 lines: what was changed, why it breaks the property, the exact conditions needed for it to manifest
Verify all of it yourself: with the patch applied build OK, the full suite passes (your demo excluded), the demo fails;
without the patch the demo passes. At the end restore the worktree (git checkout -- . ; rm -rf verifdemo) leaving
only _out/. Your final answer: at most 10 lines summarising the two changes and confirming what you ran.
'''
T = T.replace('@WT@', WT).replace('@P@', P).replace('@TITLE@', d['title']).replace('@STATEMENT@', d['statement']).replace('@QUANT@', d['quantifier']['text'])
open(WT + '/_PROMPT.md', 'w').write(T)
