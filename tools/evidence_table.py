#!/usr/bin/env python3
# prints a markdown table of what the last run of every check covered (from /verif/evidence/*.json)
import json, glob
print("| property | tier | seed | evaluations | distinct non-trivial | monitor events | wall s | violations |")
print("|---|---|---|---|---|---|---|---|")
for f in sorted(glob.glob('/verif/evidence/C*.json')):
    e = json.load(open(f)); c = e['coverage']
    ev = {k: v for k, v in c.get('counters', {}).items() if v and k not in ('race_reports', 'worker_deaths', 'sanitizer_evaluations')}
    top = sorted(ev.items(), key=lambda kv: -kv[1])[:3]
    print("| %s | %s | %d | %d | %d | %s | %.0f | %d |" % (e['property_id'], e['tier'], e['seed'], c['evaluations'], c['distinct_nontrivial'],
          ", ".join("%s=%d" % kv for kv in top), e['wall_s'], e.get('violations', 0)))
