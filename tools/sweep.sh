#!/bin/bash
# tools/sweep.sh <tier> <seed> [ids...]: run checks on the unchanged tree, print one line each
TIER=${1:-quick}; SEED=${2:-1}; shift; shift
IDS=${@:-C01 C02 C03 C04 C05 C06 C07 C08 C09 C10 C11 C12 C13 C14 C15 C16 C17 C18 C19 C20}
cd "$(dirname "$(readlink -f "$0")")/.."; mkdir -p work bin evidence replay
for id in $IDS; do
  VERIF_SEED=$SEED ./check $id $TIER > work/sweep_$id.txt 2>&1; rc=$?
  echo "exit=$rc $(grep -a "^$id " work/sweep_$id.txt | tail -1 | cut -c1-200)"
  [ $rc -ne 0 ] && grep -a "^  \[\|HARNESS\|BROKEN\|BUILD" work/sweep_$id.txt | cut -c1-300 | head -5
done
