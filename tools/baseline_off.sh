#!/bin/bash
# Runs the repository's pinned suite with the verif guard OFF and compares the
# set of passing tests with /root/.vp/BASELINE.json (stable_pass).
export GOFLAGS=-mod=mod GOPROXY=off GOSUMDB=off GOTOOLCHAIN=local
cd /repo || exit 2
out=$(mktemp)
go test -mod=mod -json -vet=off -count=1 -timeout 25m ./... > "$out" 2>/dev/null
python3 - "$out" <<'PY'
import json,sys
passed=set(); failed=set()
for l in open(sys.argv[1]):
    try: e=json.loads(l)
    except Exception: continue
    if e.get('Test') and e.get('Action') in('pass','fail'):
        k=e['Package']+'::'+e['Test']
        (passed if e['Action']=='pass' else failed).add(k)
base=set(json.load(open('/root/.vp/BASELINE.json'))['stable_pass'])
missing=sorted(base-passed)
print("baseline stable_pass=%d passed_now=%d failed_now=%d missing=%d"%(len(base),len(passed),len(failed),len(missing)))
for m in missing[:40]: print("MISSING",m)
for m in sorted(failed)[:40]: print("FAILED",m)
sys.exit(1 if missing or failed else 0)
PY
rc=$?
rm -f "$out"
cd /repo && git status --short | sed 's/^/DIRTY /'
exit $rc
