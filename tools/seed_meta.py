#!/usr/bin/env python3
# Writes /verif/seeded/<id>/meta.json from the notes and a seed_matrix.sh log.
import json, os, re, sys
log = sys.argv[1] if len(sys.argv) > 1 else '/tmp/matrix.log'
res = {}
for l in open(log, errors='replace'):
    m = re.match(r'(\S+) (C\d+) exit=(\d+) secs=(\d+) monitors: (.*)', l)
    if m:
        res.setdefault(m.group(1), []).append({"check": m.group(2) + " quick", "exit": int(m.group(3)), "seconds": int(m.group(4)),
                                               "detected": m.group(3) == "1", "monitors_that_fired": m.group(5).split()})
for d in sorted(os.listdir('/verif/seeded')):
    p = os.path.join('/verif/seeded', d)
    if not os.path.isdir(p): continue
    prop = d.split('-')[0]
    note = open(os.path.join(p, 'note.md')).read().strip() if os.path.exists(os.path.join(p, 'note.md')) else ''
    meta = {
        "property": prop,
        "origin": "sub-agent given only the property text and a scratch worktree of /repo (commit f070e47)",
        "what_it_needs_to_manifest": note,
        "confirmed_by": "tools/confirm_seed.sh: applies in a scratch worktree, go build ./... ok, go test ./... 629/629 pass, demo_test.go (package verifdemo) fails with the change and passes without it",
        "checks_run": res.get(d, []),
    }
    json.dump(meta, open(os.path.join(p, 'meta.json'), 'w'), indent=1, ensure_ascii=False)
print("wrote meta for", len(os.listdir('/verif/seeded')))
