#!/usr/bin/env python3
# Regenerates /verif/MANIFEST.json from the table below (claimed checks) and
# properties.jsonl (everything not claimed goes to not_applicable with a reason).
import json, subprocess

CLAIMED = {
 "C03": dict(cat="exploration", tech="differential execution of 4 back ends (plus 2 long-lived public engines) under generated + boundary workloads; value/failure/host-call-trace comparison monitor",
   text="Runs every generated program on vm-switch, vm-callthread (hook), closure and interp with one environment and compares value (exact structural identity), failure class and the ordered host-call trace; size-limit families cross every VM encoding boundary. Exploration is the right level: the property is an equivalence of executions, decided by observing executions.",
   note="Trusted: the harness's value reader (bridge.FromVal), Go runtime. Inputs outside the generators are not covered. vm-callthread >=1024 dispatches is a recorded known finding (D15).", ref="DESIGN.md §4 C03"),

 "C01": dict(cat="exploration", tech="invariant monitor: deep walk of every run-time value against the checker's own inferred type, on 4 back ends of the plain pipeline plus 2 long-lived public engines; -race (checkptr) and -asan builds",
   text="Every value returned by every back end (and every value handed to a host function) is walked: non-nil, own type equals declared component type at every depth, map-key tags, object slot counts; the oracle uses the real checker's inferred type, so accepted mutants expose unsound acceptance as ill-typed values. All field-order permutations of equal objects are enumerated. Sanitizer builds watch the unsafe.Pointer casts behind each accessor.",
   note="Trusted: bridge.FromVal / reference type equality (cross-checked against types.Equals on every node), Go runtime, race detector / ASan.", ref="DESIGN.md §4 C01"),
 "C02": dict(cat="exploration", tech="outcome-classifier monitor vs reference evaluator (value | documented failure class | internal fault | process death), boundary and size-limit workloads, -race/-asan builds",
   text="Each execution is classified and compared with the reference evaluator's prediction: a value where one is defined, exactly the documented failure class where the operation is undefined, never an internal fault; boundary operands in every position and families crossing the VM stack / operand-width limits.",
   note="Trusted: reference evaluator (DESIGN.md Appendix A); oracle-silent zones are listed in the evidence assumptions.", ref="DESIGN.md §4 C02"),
 "C04": dict(cat="exploration", tech="reference-model monitor: element-by-element comparison with an independent evaluator over exhaustive pool applications, literal forms and random programs, two time zones",
   text="Every built-in applied exhaustively (thorough) / strided (quick) to boundary pools, every literal spelling, then random nested programs; the value must equal the independent reference evaluator's value with exact float bits.",
   note="Trusted: the reference evaluator and Go's math / regexp / time packages.", ref="DESIGN.md §4 C04"),
 "C05": dict(cat="exploration", tech="reference type-checker monitor: accept/reject and inferred type compared on well-typed programs, type-breaking mutants and permuted overload registrations",
   text="Compilation verdict and inferred type of the real checker are compared with an independent reference checker on generated well-typed programs, on their type-breaking mutations and on overload sets registered in every order; accepted programs are also executed so a rejection that only arrives at run time is observed.",
   note="Trusted: the reference checker (rules as stated in the property).", ref="DESIGN.md §4 C05"),
 "C06": dict(cat="exploration", tech="trace monitor: ordered host-call trace and outcome vs reference evaluator; enumerated laziness families with failing operands in unselected positions",
   text="Effect-recording and failing operands are placed in every operand position of every lazy and strict construct (nested to depth 3); the observed ordered host-call trace and the outcome must equal the reference evaluator's on all four back ends.",
   note="Trusted: reference evaluator's evaluation order (strict left-to-right once; lazy operands only when forced).", ref="DESIGN.md §4 C06"),

 "C08": dict(cat="exploration", tech="reference precedence parser + law oracle + span oracle over exhaustive small token strings, random operator tables and trees",
   text="Accept/reject, tree and per-node source span of the real parser are compared with an independent reference precedence parser on every token string up to a length bound (exhaustive) and on random operator tables / trees; a reference-free law oracle (fully parenthesised rendering of a tree must parse to that tree; dropping a pair the declarations make redundant must not change it) guards against a shared misconception.",
   note="Trusted: the reference parser and the harness token layout (positions). The lexer is not involved (tokens are built by the harness).", ref="DESIGN.md §4 C08"),
 "C09": dict(cat="exploration", tech="invariant monitor on token streams + reference maximal-munch lexer; exhaustive strings over a 16-symbol alphabet, random token-piece concatenations, 4 operator sets",
   text="Every successful Lex is checked for order, disjointness, white-space-only gaps, lexeme == input[Idx:IdxEnd] and recomputed line/column, and compared token by token with an independent reference lexer; the input space up to the length bound is enumerated completely.",
   note="Trusted: the reference lexer (documented token forms).", ref="DESIGN.md §4 C09"),
 "C10": dict(cat="exploration", tech="structural monitors on Desugar (core-only, idempotent, input snapshot unchanged, explicit-tree equality) + differential execution of sugared source vs explicit AST",
   text="Every parsed tree is desugared once and twice and snapshotted field by field before and after the whole pipeline; generated well-typed programs are run both as sugared source and as the explicit call tree built directly as AST nodes and must agree in acceptance, type, outcome and host-call trace on 4 back ends of the plain pipeline plus 2 long-lived public engines.",
   note="Trusted: harness AST builder (bridge.ToAST), reflection-based snapshot. (o.f)(x) double-desugar is a recorded known finding (D22).", ref="DESIGN.md §4 C10"),
 "C11": dict(cat="exploration", tech="bytecode verifier monitor (independent instruction-set description + abstract interpretation) over hooked code bytes / constant pool / deferred bodies of every emitted program",
   text="Each program the compiler emits for the C02/C03 workloads, constant-pad families and tree-built programs beyond the 16-bit limits is decoded and abstractly interpreted: known opcodes, operand ranges and kinds, forward jumps to instruction boundaries, path-independent non-negative stack depth, exactly one value at the final return, deferred bodies recursively.",
   note="Trusted: the instruction-set description in bridge/bytecode.go and the read-only hook VerifCompile / VerifThunkCode.", ref="DESIGN.md §4 C11"),

 "C12": dict(cat="exploration", tech="panic / process-death / stall monitor around every public entry point under fuzzed sources and hostile host values; logical cost monitor (allocation counts) with per-family growth-ratio test; -asan build on a sample",
   text="Eval, Debug, Compile and the Callable are driven with random and mutated sources, 42 hostile host values and 27 nesting families; any escaping panic, process death or confirmed stall is a violation; cost is measured in heap allocations and must stay under a cubic envelope per input and under a growth ratio of 1.7 per nesting level (termination restated as bounded cost).",
   note="Trusted: runtime.MemStats.Mallocs as the cost unit; the parent's progress watchdog (a stall is confirmed by re-running the case alone). Unbounded 'always terminates' is outside this family of technique.", ref="DESIGN.md §4 C12"),
 "C13": dict(cat="exploration", tech="history monitor: outcomes of long Compile/Invoke histories on reused engines and environment objects vs fresh-object baselines; stdout capture vs reference print log; before/after snapshots of host values",
   text="Each operation of 50-400-step histories over reused engines, maps, *types.Env and *val.Env objects must have exactly the outcome (value, both renderings, failure class, environment rejection) it has on fresh objects; bytes written to fd 1 must equal the reference print log; host values are snapshotted before and after.",
   note="Trusted: reference evaluator's print log; outcome equality ignores error message text.", ref="DESIGN.md §4 C13"),
 "C14": dict(cat="exploration", tech="Go race detector (-race build is the deciding build) over barrier-released concurrent invocations / compilations, plus outcome-equality monitor against sequential execution",
   text="One compiled expression invoked from 16-64 goroutines, compilations on separate engines and on one warmed-up engine, vm and closure compilers, repeated 10/50 times under -race with reports collected (halt_on_error=0) and de-duplicated; every concurrent outcome must equal the sequential one.",
   note="Trusted: the race detector's happens-before analysis (cannot see inside the prebuilt C archive); only scheduler-produced interleavings are observed.", ref="DESIGN.md §4 C14"),
 "C17": dict(cat="exploration", tech="algebraic-law monitors on types.Equals / types.Unify over exhaustively enumerated small types and random tuples; own occurs check and substitution application; reference one-way matcher",
   text="All pairs of depth<=1 types (exhaustive) and depth<=2 (sampled/all), random argument tuples: Equals must be reflexive, symmetric and coincide with structural identity (also when one node is shared); every successful Unify is checked for an acyclic substitution that makes both sides equal (bottom on the right excepted); pattern-vs-ground success must coincide with the reference matcher.",
   note="Trusted: reference structural equality / matcher (ref/ty.go).", ref="DESIGN.md §4 C17"),
 "C18": dict(cat="exploration", tech="agreement monitor over ==, rendering, map-key identity and set membership on generated value pairs (identical / re-laid-out / one leaf changed), bound as host data",
   text="For each pair the four notions of sameness are evaluated by the real engine and must agree with each other, be reflexive and symmetric, be invariant under field / insertion order, and both renderers must equal the reference renderers.",
   note="Trusted: the pools respect the property's precondition. NaN and equal instants in different time.Location are recorded known findings (D26, D21).", ref="DESIGN.md §4 C18"),
 "C19": dict(cat="exploration", tech="trace monitor on debug records (hook: entries) vs the reference evaluator's (value, column) log; report-content monitor; differential against normal evaluation and yae.Debug",
   text="Debug evaluation must return what normal evaluation returns; the recorded entries must be exactly the reference evaluator's log of evaluated identifier / call / member / subscript nodes in order with the column of their own token; the rendered report must keep the source as first line and show every value at its column.",
   note="Trusted: harness renderer's column bookkeeping (cross-checked against the plain renderer in a unit test).", ref="DESIGN.md §4 C19"),
 "C20": dict(cat="exploration", tech="reference SQL reader monitor: emitted WHERE text is tokenised and parsed with standard precedence and compared (flattened) with the criteria tree; adversarial operand pools",
   text="All AND/OR/NOT shapes to depth 3 (exhaustive) and sampled deeper, with every adversarial string and boundary number as literal or bound parameter; the text must read back to the same boolean structure and operands, each string as exactly one literal.",
   note="Trusted: the reference reader's dialect (backtick identifiers, backslash-escaped double-quoted strings).", ref="DESIGN.md §4 C20"),

 "C07": dict(cat="exploration", tech="sequence monitor: six invocations of one Callable with conforming / mismatching environments in three forms (map, reflection-built struct, raw), reference type equality decides accept/reject, host-call trace must stay empty on refusal",
   text="Pairs of compile-time and run-time environments with dropped names, values retyped at depth 0-3, optional-vs-plain fields, reordered struct fields, extra names and an in-place re-bound raw environment object; accepted iff every compile-time name is bound to a value of equal type; refused calls must not have invoked any host function; accepted calls must return the reference value.",
   note="Trusted: props/togo.go (reference value -> Go host value) and the reference type equality.", ref="DESIGN.md §4 C07"),
 "C15": dict(cat="exploration", tech="reference-converter monitor over reflection-built Go types and values (expectation generated with the value); type-stability pairs; error-class table",
   text="ValOf / TypeOf on generated Go values of every numeric kind, strings, times, pointers, slices, arrays, maps, structs with tag variants and interface boxing: well-formedness walk, TypeOf == ValOf.Type == shape-dictated type, content equality, equal types for two values of one interface-free Go type incl. 'compile against one, invoke with the other', and an error (not a panic, not success) for 26 unsupported / inconsistent inputs.",
   note="Trusted: props/hostgen.go expectation logic.", ref="DESIGN.md §4 C15"),
 "C16": dict(cat="exploration", tech="exhaustive misuse table (every built-in x every typed parameter position given an optional) + random programs over present/absent optionals on 4 back ends of the plain pipeline plus 2 long-lived public engines and over host structs with nil pointers",
   text="Every typed parameter position of every built-in, every access form and 21 misuse shapes receive an optional of exactly the required type and must be refused by the checker; get(optional, default) and random accepted programs over absent data must agree with the reference evaluator and never end in an internal fault; absent untagged pointers are never read as values.",
   note="Trusted: reference checker / evaluator; bare-type-variable parameters accept optionals by design.", ref="DESIGN.md §4 C16"),
}
NOT_YET = "check not built yet in this session (see DESIGN.md §4); will be claimed when its monitor exists"

def main():
    props=[json.loads(l) for l in open('/verif/properties.jsonl')]
    checks=[]; na=[]
    for p in props:
        i=p['id']
        if i in CLAIMED:
            c=CLAIMED[i]
            checks.append({
              "property_id": i,
              "quick_cmd": "./check %s quick"%i,
              "thorough_cmd": "./check %s thorough"%i,
              "evidence_file": "/verif/evidence/%s.json"%i,
              "replay_cmd_template": "./check %s quick --replay {path}"%i,
              "engine": "verifd",
              "level_claimed": {"category": c['cat'], "text": c['text'], "design_ref": c['ref']},
              "level_note": c['note'],
              "technique": c['tech'],
            })
        else:
            na.append({"property_id": i, "reason": NOT_YET})
    hooks=subprocess.run(["git","-C","/repo","log","--format=%H","--grep=^verif hooks"],capture_output=True,text=True).stdout.split()
    m={
     "version": 1,
     "setup_cmd": "./setup.sh",
     "hooks": {
       "guard": "verif",
       "enable": "go build -tags verif (harness module /verif/harness with `replace github.com/goghcrow/yae => /repo`)",
       "baseline_off_cmd": "/verif/tools/baseline_off.sh",
       "source_commits": hooks,
       "add_only": True
     },
     "engines": [{"name":"verifd","path":"/verif/harness/cmd/verifd","serves_properties":sorted(CLAIMED),"kind_free_text":"Go harness: parent/worker processes, reference models, monitors, sanitizer builds (-race, -asan)"}],
     "checks": checks,
     "not_applicable": na,
     "notes": "Runtime monitoring and sanitizers only. ./check <ID> <tier> rebuilds the harness against /repo's working tree with -tags verif. Known findings: /verif/known_findings.json."
    }
    json.dump(m,open('/verif/MANIFEST.json','w'),indent=1)
    print("claimed",len(checks),"not_applicable",len(na))
main()
