#!/usr/bin/env python3
# Regenerates /verif/MANIFEST.json from the table below (claimed checks) and
# properties.jsonl (everything not claimed goes to not_applicable with a reason).
import json, subprocess

CLAIMED = {
 "C03": dict(cat="exploration", tech="differential execution of 4 back ends under generated + boundary workloads; value/failure/host-call-trace comparison monitor",
   text="Runs every generated program on vm-switch, vm-callthread (hook), closure and interp with one environment and compares value (exact structural identity), failure class and the ordered host-call trace; size-limit families cross every VM encoding boundary. Exploration is the right level: the property is an equivalence of executions, decided by observing executions.",
   note="Trusted: the harness's value reader (bridge.FromVal), Go runtime. Inputs outside the generators are not covered. vm-callthread >=1024 dispatches is a recorded known finding (D15).", ref="DESIGN.md §4 C03"),
}
NOT_YET = "check not built yet in this session (see DESIGN.md §4); will be claimed when its monitor exists"

def main():
    props=[json.loads(l) for l in open('/verif/properties.jsonl')]
    checks=[]; na=[]
    for p in props:
        i=p['id']
        if i in CLAIMED:
            c=CLAIMED[i]
            checks.append({
              "property_id": i,
              "quick_cmd": "./check %s quick"%i,
              "thorough_cmd": "./check %s thorough"%i,
              "evidence_file": "/verif/evidence/%s.json"%i,
              "replay_cmd_template": "./check %s quick --replay {path}"%i,
              "engine": "verifd",
              "level_claimed": {"category": c['cat'], "text": c['text'], "design_ref": c['ref']},
              "level_note": c['note'],
              "technique": c['tech'],
            })
        else:
            na.append({"property_id": i, "reason": NOT_YET})
    hooks=subprocess.run(["git","-C","/repo","log","--format=%H","--grep=^verif hooks"],capture_output=True,text=True).stdout.split()
    m={
     "version": 1,
     "setup_cmd": "./setup.sh",
     "hooks": {
       "guard": "verif",
       "enable": "go build -tags verif (harness module /verif/harness with `replace github.com/goghcrow/yae => /repo`)",
       "baseline_off_cmd": "/verif/tools/baseline_off.sh",
       "source_commits": hooks,
       "add_only": True
     },
     "engines": [{"name":"verifd","path":"/verif/harness/cmd/verifd","serves_properties":sorted(CLAIMED),"kind_free_text":"Go harness: parent/worker processes, reference models, monitors, sanitizer builds (-race, -asan)"}],
     "checks": checks,
     "not_applicable": na,
     "notes": "Runtime monitoring and sanitizers only. ./check <ID> <tier> rebuilds the harness against /repo's working tree with -tags verif. Known findings: /verif/known_findings.json."
    }
    json.dump(m,open('/verif/MANIFEST.json','w'),indent=1)
    print("claimed",len(checks),"not_applicable",len(na))
main()
