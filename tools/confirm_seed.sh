#!/bin/bash
# tools/confirm_seed.sh <Cxx> <k>: confirm a sub-agent's change in its scratch worktree
# (compiles, suite passes, demo fails with / passes without), then store it under /verif/seeded/.
export GOFLAGS=-mod=mod GOPROXY=off GOSUMDB=off GOTOOLCHAIN=local
P=$1; K=$2; BASE=${3:-/tmp/wt}; NUM=${4:-$K}; WT=$BASE/$P; OUT=$WT/_out
cd $WT || exit 2
git checkout -q -- . ; rm -rf verifdemo
git apply $OUT/patch$K.diff || { echo "$P/$K: patch does not apply"; exit 1; }
go build ./... || { echo "$P/$K: BUILD FAILS"; git checkout -q -- .; exit 1; }
go test -json -vet=off -count=1 ./... > /tmp/seed_suite.json 2>/dev/null
python3 - <<'PY' || { echo "SUITE DIFFERS"; }
import json
passed=set(); failed=set()
for l in open('/tmp/seed_suite.json'):
    try: e=json.loads(l)
    except Exception: continue
    if e.get('Test') and e.get('Action') in('pass','fail'):
        (passed if e['Action']=='pass' else failed).add(e['Package']+'::'+e['Test'])
base=set(json.load(open('/root/.vp/BASELINE.json'))['stable_pass'])
print("suite with patch: passed=%d failed=%d missing=%d"%(len(passed),len(failed),len(base-passed)))
import sys; sys.exit(1 if failed or base-passed else 0)
PY
SUITE=$?
mkdir -p verifdemo && cp $OUT/demo$K\_test.go verifdemo/
timeout 300 go test -vet=off -count=1 ./verifdemo > /tmp/seed_demo_with.txt 2>&1; WITH=$?
git checkout -q -- . 
timeout 300 go test -vet=off -count=1 ./verifdemo > /tmp/seed_demo_without.txt 2>&1; WITHOUT=$?
rm -rf verifdemo; git checkout -q -- .
echo "$P/$K: suite_ok=$((1-SUITE)) demo_with_patch_exit=$WITH demo_without_patch_exit=$WITHOUT"
if [ $SUITE -eq 0 ] && [ $WITH -ne 0 ] && [ $WITHOUT -eq 0 ]; then
  D=/verif/seeded/$P-$NUM; mkdir -p $D
  cp $OUT/patch$K.diff $D/patch.diff; cp $OUT/demo$K\_test.go $D/demo_test.go; cp $OUT/note$K.md $D/note.md
  echo CONFIRMED
else
  echo NOT-CONFIRMED; tail -5 /tmp/seed_demo_with.txt; tail -5 /tmp/seed_demo_without.txt
fi
