#!/bin/bash
# Runs every seeded change against the quick check of the property it targets
# (and optional extra properties), applying it to /repo and undoing it straight afterwards.
# usage: tools/seed_matrix.sh [seed-dir ...]    output: one line per (seed, check)
ROOT=$(dirname "$(dirname "$(readlink -f "$0")")"); cd $ROOT
# MATRIX_REPO: apply the changes to another checkout (e.g. a scratch worktree) instead of /repo
R=${MATRIX_REPO:-/repo}
[ "$R" != /repo ] && export VERIF_REPO=$R
SEEDS=${@:-$(ls -d seeded/*/ | sed 's#/$##')}
for s in $SEEDS; do
  id=$(basename $s); prop=${id%%-*}
  case $prop in C[0-9][0-9]) ;; *) prop=$(cat $s/property 2>/dev/null);; esac
  extra=$(cat $s/also 2>/dev/null)
  for p in $prop $extra; do
    if [ -n "$(git -C $R status --porcelain)" ]; then echo "$id $p REPO-NOT-CLEAN"; exit 2; fi
    if ! git -C $R apply $ROOT/$s/patch.diff 2>/dev/null; then echo "$id $p PATCH-DOES-NOT-APPLY"; continue; fi
    st=$(date +%s)
    ./check $p quick > $ROOT/work/matrix_out.txt 2>&1; rc=$?
    git -C $R checkout -- . ; git -C $R clean -fdq
    mon=$(grep -a -o "^  \[[a-z-]*\]" $ROOT/work/matrix_out.txt | sort | uniq -c | sort -rn | awk '{printf "%s%s ", $2, $3}' | head -c 200)
    echo "$id $p exit=$rc secs=$(( $(date +%s) - st )) monitors: $mon"
  done
done
