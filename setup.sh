#!/bin/bash
# Builds the harness binaries (plain, -race, -asan) from files on disk only.
export GOFLAGS=-mod=mod GOPROXY=off GOSUMDB=off GOTOOLCHAIN=local
set -e
ROOT=$(dirname "$(readlink -f "$0")")
mkdir -p $ROOT/bin $ROOT/work $ROOT/evidence $ROOT/replay
cd $ROOT/harness
go build -tags verif -o $ROOT/bin/verifd ./cmd/verifd
go build -tags verif -race -o $ROOT/bin/verifd.race ./cmd/verifd
go build -tags verif -asan -o $ROOT/bin/verifd.asan ./cmd/verifd
echo setup ok
