#!/bin/bash
# Builds the harness binaries (plain, -race, -asan) from files on disk only.
export GOFLAGS=-mod=mod GOPROXY=off GOSUMDB=off GOTOOLCHAIN=local
set -e
mkdir -p /verif/bin /verif/work /verif/evidence /verif/replay
cd /verif/harness
go build -tags verif -o /verif/bin/verifd ./cmd/verifd
go build -tags verif -race -o /verif/bin/verifd.race ./cmd/verifd
go build -tags verif -asan -o /verif/bin/verifd.asan ./cmd/verifd
echo setup ok
