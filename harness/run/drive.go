package run

import (
	"bufio"
	"context"
	"encoding/json"
	"flag"
	"fmt"
	"os"
	"os/exec"
	"path/filepath"
	"regexp"
	"sort"
	"strconv"
	"strings"
	"sync"
	"syscall"
	"time"
)

// Root is the verification directory (VERIF_ROOT overrides, for snapshot runs).
var Root = func() string {
	if r := os.Getenv("VERIF_ROOT"); r != "" {
		return r
	}
	return "/verif"
}()

// WorkMain is the entry of a child process.
func WorkMain(args []string) int {
	fs := flag.NewFlagSet("work", flag.ExitOnError)
	prop := fs.String("prop", "", "")
	tier := fs.String("tier", "quick", "")
	seed := fs.Int64("seed", 1, "")
	batch := fs.Int("batch", 0, "")
	nbatch := fs.Int("nbatch", 1, "")
	out := fs.String("out", "", "")
	logp := fs.String("log", "", "")
	only := fs.String("only", "", "")
	skip := fs.String("skip", "", "")
	fs.Parse(args)
	spec := Lookup(*prop)
	if spec == nil {
		fmt.Fprintln(os.Stderr, "unknown property", *prop)
		return 2
	}
	c := &Ctx{Prop: *prop, Tier: *tier, Seed: *seed, Batch: *batch, NBatch: *nbatch, Only: *only,
		Skip: map[string]bool{}, distinct: map[uint64]struct{}{}}
	c.part.Counters = map[string]int64{}
	if *skip != "" {
		b, err := os.ReadFile(*skip)
		if err == nil {
			for _, s := range strings.Split(string(b), "\n") {
				if s != "" {
					c.Skip[s] = true
				}
			}
		}
	}
	if k, err := LoadKnown(filepath.Join(Root, "known_findings.json")); err == nil {
		c.known = k
	}
	if *logp != "" {
		f, err := os.OpenFile(*logp, os.O_APPEND|os.O_CREATE|os.O_WRONLY, 0644)
		if err != nil {
			fmt.Fprintln(os.Stderr, err)
			return 2
		}
		c.log = f
	}
	spec.Run(c)
	if *out != "" {
		if err := c.finish(*out); err != nil {
			fmt.Fprintln(os.Stderr, err)
			return 2
		}
	}
	return 0
}

type workerDef struct {
	name   string
	bin    string
	batch  int
	nbatch int
	build  string
}

type death struct {
	worker string
	build  string
	caseID string
	input  string
	why    string
	stderr string
}

func lastOpenCase(logPath string) (id, input string) {
	f, err := os.Open(logPath)
	if err != nil {
		return "", ""
	}
	defer f.Close()
	sc := bufio.NewScanner(f)
	sc.Buffer(make([]byte, 1<<20), 1<<24)
	open := ""
	for sc.Scan() {
		l := sc.Text()
		switch {
		case strings.HasPrefix(l, "BEGIN "):
			open = l[6:]
			input = ""
		case strings.HasPrefix(l, "END "):
			open = ""
		case strings.HasPrefix(l, "INPUT "):
			input = l[6:]
		}
	}
	return open, input
}

func tail(path string, n int) string {
	b, err := os.ReadFile(path)
	if err != nil {
		return ""
	}
	lines := strings.Split(string(b), "\n")
	if len(lines) > n {
		// keep the head (fatal error line) and a bit of the tail
		head := lines[:n/2]
		tl := lines[len(lines)-n/2:]
		lines = append(append(head, "..."), tl...)
	}
	return strings.Join(lines, "\n")
}

var raceHdr = regexp.MustCompile(`(?m)^WARNING: DATA RACE`)
var frameRe = regexp.MustCompile(`(?m)^  (github\.com/goghcrow/yae[^\s(]*)\(`)

// raceReports splits race-detector logs into de-duplicated reports (by the
// set of /repo frames without line numbers).
func raceReports(glob string) (n int, uniq map[string]string) {
	uniq = map[string]string{}
	files, _ := filepath.Glob(glob)
	for _, f := range files {
		b, err := os.ReadFile(f)
		if err != nil {
			continue
		}
		parts := strings.Split(string(b), "==================")
		for _, p := range parts {
			if !raceHdr.MatchString(p) {
				continue
			}
			n++
			fr := frameRe.FindAllStringSubmatch(p, -1)
			set := map[string]bool{}
			for _, m := range fr {
				set[m[1]] = true
			}
			var keys []string
			for k := range set {
				keys = append(keys, k)
			}
			sort.Strings(keys)
			key := strings.Join(keys, " | ")
			if _, ok := uniq[key]; !ok {
				if len(p) > 3000 {
					p = p[:3000]
				}
				uniq[key] = p
			}
		}
	}
	return
}

// DriveMain is the parent: builds the case partition, runs workers, merges,
// writes evidence, prints the verdict lines. Returns the exit code.
func DriveMain(args []string) int {
	fs := flag.NewFlagSet("drive", flag.ExitOnError)
	prop := fs.String("prop", "", "")
	tier := fs.String("tier", "quick", "")
	replay := fs.String("replay", "", "")
	bindir := fs.String("bindir", filepath.Join(Root, "bin"), "")
	fs.Parse(args)
	spec := Lookup(*prop)
	if spec == nil {
		fmt.Fprintln(os.Stderr, "unknown property", *prop)
		return 2
	}
	seed := int64(1)
	if s := os.Getenv("VERIF_SEED"); s != "" {
		if v, err := strconv.ParseInt(s, 10, 64); err == nil {
			seed = v
		}
	}
	start := time.Now()
	work := filepath.Join(Root, "work", *prop)
	os.RemoveAll(work)
	os.MkdirAll(work, 0755)
	self := filepath.Join(*bindir, "verifd")

	only := ""
	if *replay != "" {
		b, err := os.ReadFile(*replay)
		if err != nil {
			fmt.Fprintln(os.Stderr, err)
			return 2
		}
		var r struct {
			Case string `json:"case"`
			Seed int64  `json:"seed"`
			Tier string `json:"tier"`
		}
		json.Unmarshal(b, &r)
		only, seed, *tier = r.Case, r.Seed, r.Tier
	}

	nw := spec.Workers
	if nw == 0 {
		nw = 16
	}
	var defs []workerDef
	for i := 0; i < nw; i++ {
		defs = append(defs, workerDef{fmt.Sprintf("w%02d", i), self, i, nw, "plain"})
	}
	if only == "" {
		for _, b := range spec.Builds {
			if b == "asan" && *tier != "thorough" {
				continue
			}
			frac := spec.SanFrac
			if frac <= 0 {
				frac = 1
			}
			k := 8
			for i := 0; i < k; i++ {
				defs = append(defs, workerDef{fmt.Sprintf("%s%02d", b, i), self + "." + b, i, k * frac, b})
			}
		}
	}

	var mu sync.Mutex
	var deaths []death
	partials := map[string]*Partial{}
	sanEvals := int64(0)
	hangs := 0

	runWorker := func(d workerDef) {
		skipFile := filepath.Join(work, d.name+".skip")
		for attempt := 0; attempt < 6; attempt++ {
			logp := filepath.Join(work, fmt.Sprintf("%s.%d.log", d.name, attempt))
			outp := filepath.Join(work, fmt.Sprintf("%s.%d.json", d.name, attempt))
			errp := filepath.Join(work, fmt.Sprintf("%s.%d.err", d.name, attempt))
			a := []string{"work", "--prop", *prop, "--tier", *tier, "--seed", strconv.FormatInt(seed, 10),
				"--batch", strconv.Itoa(d.batch), "--nbatch", strconv.Itoa(d.nbatch), "--out", outp, "--log", logp,
				"--skip", skipFile}
			if only != "" {
				a = append(a, "--only", only)
			}
			budget := 30 * time.Minute
			stall := 60 * time.Second
			if *tier == "thorough" {
				budget = 120 * time.Minute
				stall = 150 * time.Second
			}
			if spec.Stall > 0 {
				stall = spec.Stall
			}
			ctx, cancel := context.WithTimeout(context.Background(), budget)
			cmd := exec.CommandContext(ctx, d.bin, a...)
			ef, _ := os.Create(errp)
			cmd.Stdout, cmd.Stderr = ef, ef
			cmd.Env = append(os.Environ(),
				"GORACE=halt_on_error=0 log_path="+filepath.Join(work, "race."+d.name),
				"ASAN_OPTIONS=halt_on_error=1:abort_on_error=1:detect_leaks=0:log_path="+filepath.Join(work, "asan."+d.name),
				"GOTRACEBACK=single")
			if spec.WorkerEnv != nil {
				cmd.Env = append(cmd.Env, spec.WorkerEnv(d.batch)...)
			}
			// progress watchdog: the event log must keep growing. A stall is
			// only a suspicion; it is confirmed (or not) by re-running the
			// in-flight case alone below.
			stalled := false
			done := make(chan struct{})
			if err := cmd.Start(); err != nil {
				ef.Close()
				cancel()
				mu.Lock()
				deaths = append(deaths, death{d.name, d.build, "", "", "cannot start: " + err.Error(), ""})
				mu.Unlock()
				return
			}
			go func() {
				last, lastChange := int64(-1), time.Now()
				tk := time.NewTicker(2 * time.Second)
				defer tk.Stop()
				for {
					select {
					case <-done:
						return
					case <-tk.C:
						if fi, e := os.Stat(logp); e == nil && fi.Size() != last {
							last, lastChange = fi.Size(), time.Now()
						} else if time.Since(lastChange) > stall {
							stalled = true
							cmd.Process.Signal(syscall.SIGQUIT)
							time.Sleep(2 * time.Second)
							cmd.Process.Kill()
							return
						}
					}
				}
			}()
			err := cmd.Wait()
			close(done)
			ef.Close()
			timedOut := ctx.Err() == context.DeadlineExceeded || stalled
			cancel()
			if b, rerr := os.ReadFile(outp); rerr == nil && err == nil {
				var p Partial
				if json.Unmarshal(b, &p) == nil {
					mu.Lock()
					partials[fmt.Sprintf("%s.%d", d.name, attempt)] = &p
					if d.build != "plain" {
						sanEvals += p.Evaluations
					}
					mu.Unlock()
					return
				}
			}
			// the child died (or hung): attribute it to the in-flight case
			cid, input := lastOpenCase(logp)
			why := "exit: " + fmt.Sprint(err)
			if timedOut && cid != "" {
				// confirm: run the suspect case alone with a generous budget
				c2, cancel2 := context.WithTimeout(context.Background(), 2*stall)
				a2 := []string{"work", "--prop", *prop, "--tier", *tier, "--seed", strconv.FormatInt(seed, 10),
					"--batch", strconv.Itoa(d.batch), "--nbatch", strconv.Itoa(d.nbatch), "--only", cid,
					"--out", outp + ".confirm", "--log", logp + ".confirm"}
				cmd2 := exec.CommandContext(c2, d.bin, a2...)
				cmd2.Env = cmd.Env
				e2 := cmd2.Run()
				confirmed := c2.Err() == context.DeadlineExceeded
				cancel2()
				if confirmed {
					why = "watchdog"
				} else {
					why = fmt.Sprintf("stall-not-confirmed (alone: %v)", e2)
				}
			} else if timedOut {
				why = "watchdog"
			}
			// salvage what completed before the death: re-run is deterministic,
			// so the restarted child repeats the finished cases; nothing is lost.
			mu.Lock()
			if timedOut {
				hangs++
			}
			deaths = append(deaths, death{d.name, d.build, cid, input, why, tail(errp, 60)})
			mu.Unlock()
			if cid == "" {
				return
			}
			f, _ := os.OpenFile(skipFile, os.O_APPEND|os.O_CREATE|os.O_WRONLY, 0644)
			fmt.Fprintln(f, cid)
			f.Close()
		}
	}

	sem := make(chan struct{}, 16)
	var wg sync.WaitGroup
	for _, d := range defs {
		wg.Add(1)
		sem <- struct{}{}
		go func(d workerDef) {
			defer wg.Done()
			defer func() { <-sem }()
			runWorker(d)
		}(d)
	}
	wg.Wait()

	// ---- merge ----
	total := Partial{Counters: map[string]int64{}}
	distinct := map[uint64]struct{}{}
	var names []string
	for n := range partials {
		names = append(names, n)
	}
	sort.Strings(names)
	for _, n := range names {
		p := partials[n]
		total.Evaluations += p.Evaluations
		total.NViol += p.NViol
		for _, d := range p.Distinct {
			distinct[d] = struct{}{}
		}
		for k, v := range p.Counters {
			total.Counters[k] += v
		}
		if len(total.Samples) < 8 && len(p.Samples) > 0 {
			total.Samples = append(total.Samples, p.Samples[0])
		}
		total.Violations = append(total.Violations, p.Violations...)
		total.Notes = append(total.Notes, p.Notes...)
	}
	for _, n := range names {
		if len(total.Samples) >= 12 {
			break
		}
		if p := partials[n]; len(p.Samples) > 1 {
			total.Samples = append(total.Samples, p.Samples[1:]...)
		}
	}
	if len(total.Samples) > 12 {
		total.Samples = total.Samples[:12]
	}

	known, _ := LoadKnown(filepath.Join(Root, "known_findings.json"))
	var harnessErrs []string
	// process deaths and race reports become violations
	for _, d := range deaths {
		if strings.HasPrefix(d.why, "stall-not-confirmed") {
			total.Notes = append(total.Notes, fmt.Sprintf("INCONCLUSIVE: worker %s stalled in case %s but the case finished when run alone", d.worker, d.caseID))
			total.Counters["inconclusive_stalls"]++
			continue
		}
		if d.caseID == "" || harnessPanic(d.stderr) {
			// the worker died outside any case, or the panic was raised by harness
			// code itself (first frame below the panic is in verif/harness): a
			// defect of the harness, never a verdict about the property
			harnessErrs = append(harnessErrs, fmt.Sprintf("worker %s (%s) died outside a case: %s :: %s", d.worker, d.build, d.why, firstLines(d.stderr, 8)))
			continue
		}
		mon := "process-death"
		if d.why == "watchdog" {
			mon = "hang"
		}
		det := fmt.Sprintf("%s worker %s died (%s) in case %s input=%s :: %s", d.build, d.worker, d.why, d.caseID, d.input, firstLines(d.stderr, 6))
		v := Violation{Monitor: mon, Case: d.caseID, Detail: det, Witness: d.stderr}
		for _, k := range known {
			if k.Matches(*prop, mon, det) {
				v.Known = k.ID
			}
		}
		total.Violations = append(total.Violations, v)
		total.NViol++
	}
	nrace, uniq := raceReports(filepath.Join(work, "race.*"))
	for key, rep := range uniq {
		det := "data race: " + key
		v := Violation{Monitor: "race-detector", Case: "", Detail: det, Witness: rep}
		for _, k := range known {
			if k.Matches(*prop, "race-detector", det) {
				v.Known = k.ID
			}
		}
		total.Violations = append(total.Violations, v)
		total.NViol++
	}
	total.Counters["race_reports"] = int64(nrace)
	total.Counters["sanitizer_evaluations"] = sanEvals
	total.Counters["worker_deaths"] = int64(len(deaths))

	// ---- verdict ----
	replayDir := filepath.Join(Root, "replay", *prop)
	os.MkdirAll(replayDir, 0755)
	knownSeen := map[string]string{}
	nreal := 0
	var lines []string
	for i, v := range total.Violations {
		if v.Known != "" {
			if _, ok := knownSeen[v.Known]; !ok {
				knownSeen[v.Known] = v.Detail
			}
			continue
		}
		nreal++
		if nreal > 10 {
			continue
		}
		rp := filepath.Join(replayDir, fmt.Sprintf("v%03d.json", i))
		b, _ := json.MarshalIndent(map[string]interface{}{
			"property": *prop, "case": v.Case, "seed": seed, "tier": *tier,
			"monitor": v.Monitor, "detail": v.Detail, "witness": v.Witness,
		}, "", " ")
		os.WriteFile(rp, b, 0644)
		lines = append(lines, fmt.Sprintf("VIOLATION property=%s replay=%s", *prop, rp))
		fmt.Printf("  [%s] %s\n", v.Monitor, oneLine(v.Detail, 600))
	}
	for _, k := range known {
		if d, ok := knownSeen[k.ID]; ok {
			fmt.Printf("KNOWN-FINDING: property=%s %s (%s) — observed: %s\n", *prop, k.ID, k.What, oneLine(d, 200))
		}
	}
	for _, l := range lines {
		fmt.Println(l)
	}

	events := total.Evaluations
	if spec.EventKey != "" {
		events = total.Counters[spec.EventKey]
	}
	broken := only == "" && events < spec.MinEvents
	wall := time.Since(start).Seconds()

	// ---- evidence ----
	if only == "" {
		cov := map[string]interface{}{
			"evaluations":         total.Evaluations,
			"distinct_nontrivial": len(distinct),
			"rule":                spec.Rule,
			"samples":             total.Samples,
			"counters":            total.Counters,
			"workers":             len(defs),
			"known_findings_seen": len(knownSeen),
			"notes":               total.Notes,
		}
		ev := map[string]interface{}{
			"property_id": *prop, "tier": *tier, "seed": seed, "level": spec.Level,
			"coverage": cov, "assumptions": spec.Assume, "wall_s": wall, "violations": nreal,
		}
		b, _ := json.MarshalIndent(ev, "", " ")
		os.MkdirAll(filepath.Join(Root, "evidence"), 0755)
		os.WriteFile(filepath.Join(Root, "evidence", *prop+".json"), b, 0644)
	}
	fmt.Printf("%s %s seed=%d: evaluations=%d distinct=%d events(%s)=%d violations=%d known=%d deaths=%d race_reports=%d wall=%.1fs\n",
		*prop, *tier, seed, total.Evaluations, len(distinct), spec.EventKey, events, nreal, len(knownSeen), len(deaths), nrace, wall)
	if nreal > 0 {
		return 1
	}
	if len(harnessErrs) > 0 {
		for _, h := range harnessErrs {
			fmt.Println("HARNESS-ERROR", oneLine(h, 800))
		}
		return 2
	}
	if broken {
		fmt.Printf("BROKEN-CHECK property=%s: monitor observed %d events (< %d)\n", *prop, events, spec.MinEvents)
		return 2
	}
	return 0
}

// harnessPanic reports whether a Go panic (not a runtime fatal error) was
// raised directly by harness code: the first frame of the panicking goroutine
// that is neither the runtime nor panic machinery belongs to verif/harness.
func harnessPanic(stderr string) bool {
	if !strings.Contains(stderr, "panic: ") || strings.Contains(stderr, "fatal error: ") {
		return false
	}
	lines := strings.Split(stderr, "\n")
	in := false
	for _, l := range lines {
		if strings.HasPrefix(l, "goroutine ") && strings.Contains(l, "[running]") {
			in = true
			continue
		}
		if !in || strings.HasPrefix(l, "\t") || l == "" {
			continue
		}
		if strings.HasPrefix(l, "panic(") || strings.HasPrefix(l, "runtime.") || strings.HasPrefix(l, "runtime/") {
			continue
		}
		return strings.HasPrefix(l, "verif/harness/")
	}
	return false
}

func firstLines(s string, n int) string {
	ls := strings.Split(s, "\n")
	if len(ls) > n {
		ls = ls[:n]
	}
	return strings.Join(ls, " / ")
}

func oneLine(s string, n int) string {
	s = strings.ReplaceAll(s, "\n", "\\n")
	if len(s) > n {
		s = s[:n] + "…"
	}
	return s
}
