package run

import (
	"encoding/json"
	"os"
	"regexp"
)

// KnownFinding is one entry of /verif/known_findings.json. status "known"
// suppresses the matching violations (printed as KNOWN-FINDING); status
// "fixed" is documentation only and suppresses nothing.
type KnownFinding struct {
	ID       string `json:"id"`
	Status   string `json:"status"` // known | fixed
	Property string `json:"property"`
	Monitor  string `json:"monitor,omitempty"`
	Pattern  string `json:"pattern,omitempty"` // regexp over the violation detail
	What     string `json:"what"`
	Commit   string `json:"commit,omitempty"`
	re       *regexp.Regexp
}

func (k *KnownFinding) Matches(prop, monitor, detail string) bool {
	if k.Status != "known" || k.Property != prop {
		return false
	}
	if k.Monitor != "" && k.Monitor != monitor {
		return false
	}
	if k.re == nil {
		return false
	}
	return k.re.MatchString(detail)
}

func LoadKnown(path string) ([]KnownFinding, error) {
	b, err := os.ReadFile(path)
	if err != nil {
		return nil, err
	}
	var f struct {
		Findings []KnownFinding `json:"findings"`
	}
	if err := json.Unmarshal(b, &f); err != nil {
		return nil, err
	}
	for i := range f.Findings {
		if f.Findings[i].Pattern != "" {
			re, err := regexp.Compile(f.Findings[i].Pattern)
			if err != nil {
				return nil, err
			}
			f.Findings[i].re = re
		}
	}
	return f.Findings, nil
}
