// Package run is the check framework: deterministic case lists split over
// child processes, log-before-execute, three-valued verdicts, evidence.
package run

import (
	"encoding/json"
	"fmt"
	"hash/fnv"
	"math/rand"
	"os"
	"sort"
	"strings"
	"sync"
	"time"
)

// Violation is one refuted case.
type Violation struct {
	Monitor string      `json:"monitor"`
	Case    string      `json:"case"`
	Detail  string      `json:"detail"`
	Witness interface{} `json:"witness,omitempty"`
	Known   string      `json:"known,omitempty"` // id of the matching known finding
}

// Partial is what one worker reports.
type Partial struct {
	Evaluations int64            `json:"evaluations"`
	Distinct    []uint64         `json:"distinct"`
	Counters    map[string]int64 `json:"counters"`
	Samples     []interface{}    `json:"samples"`
	Violations  []Violation      `json:"violations"`
	NViol       int64            `json:"nviol"`
	Notes       []string         `json:"notes"`
}

// Ctx is handed to a property's Run function inside a worker.
type Ctx struct {
	Prop   string
	Tier   string
	Seed   int64
	Batch  int
	NBatch int
	Only   string // when set: run only this case id (replay / isolation)
	Skip   map[string]bool

	mu       sync.Mutex
	log      *os.File
	distinct map[uint64]struct{}
	part     Partial
	curCase  string
	known    []KnownFinding
}

func (c *Ctx) Thorough() bool { return c.Tier == "thorough" }

// Pick returns q in the quick tier and t in the thorough tier.
func (c *Ctx) Pick(q, t int) int {
	if c.Thorough() {
		return t
	}
	return q
}

// Mine reports whether case number i of a stream belongs to this worker.
func (c *Ctx) Mine(i int) bool { return i%c.NBatch == c.Batch }

// Rng is a PRNG determined only by (seed, property, stream, i).
func (c *Ctx) Rng(stream string, i int) *rand.Rand {
	h := fnv.New64a()
	fmt.Fprintf(h, "%d|%s|%s|%d", c.Seed, c.Prop, stream, i)
	return rand.New(rand.NewSource(int64(h.Sum64())))
}

// Case runs f as one logged case: BEGIN is written (unbuffered, O_APPEND)
// before f touches the real code, END after. Returns false if the case is
// not selected.
func (c *Ctx) Case(id string, f func()) bool {
	if c.Only != "" && c.Only != id {
		return false
	}
	if c.Skip[id] {
		return false
	}
	c.mu.Lock()
	c.curCase = id
	if c.log != nil {
		fmt.Fprintf(c.log, "BEGIN %s\n", id)
	}
	c.part.Evaluations++
	c.mu.Unlock()
	f()
	c.mu.Lock()
	if c.log != nil {
		fmt.Fprintf(c.log, "END %s\n", id)
	}
	c.curCase = ""
	c.mu.Unlock()
	return true
}

// Input records the concrete input of the current case in the event log so
// that a process death can be attributed and replayed.
func (c *Ctx) Input(s string) {
	if c.log != nil {
		if len(s) > 4000 {
			s = s[:4000] + "…"
		}
		fmt.Fprintf(c.log, "INPUT %s\n", strings.ReplaceAll(s, "\n", "\\n"))
	}
}

// Distinct records a distinct non-trivial case key.
func (c *Ctx) Distinct(key string) {
	h := fnv.New64a()
	h.Write([]byte(key))
	c.mu.Lock()
	c.distinct[h.Sum64()] = struct{}{}
	c.mu.Unlock()
}

func (c *Ctx) Count(name string, n int) {
	c.mu.Lock()
	c.part.Counters[name] += int64(n)
	c.mu.Unlock()
}

// Sample keeps up to a few written-out cases per worker.
func (c *Ctx) Sample(v interface{}) {
	c.mu.Lock()
	if len(c.part.Samples) < 6 {
		c.part.Samples = append(c.part.Samples, v)
	}
	c.mu.Unlock()
}

func (c *Ctx) Note(s string) {
	c.mu.Lock()
	if len(c.part.Notes) < 20 {
		c.part.Notes = append(c.part.Notes, s)
	}
	c.mu.Unlock()
}

// Violation records a refuting observation for the current case.
func (c *Ctx) Violation(monitor, detail string, witness interface{}) {
	c.mu.Lock()
	defer c.mu.Unlock()
	v := Violation{Monitor: monitor, Case: c.curCase, Detail: detail, Witness: witness}
	for _, k := range c.known {
		if k.Matches(c.Prop, monitor, detail) {
			v.Known = k.ID
			break
		}
	}
	c.part.NViol++
	if len(c.part.Violations) < 40 {
		c.part.Violations = append(c.part.Violations, v)
	}
	if c.log != nil {
		fmt.Fprintf(c.log, "VIOLATION %s %s\n", monitor, strings.ReplaceAll(detail, "\n", "\\n"))
	}
}

func (c *Ctx) finish(path string) error {
	c.part.Distinct = make([]uint64, 0, len(c.distinct))
	for k := range c.distinct {
		c.part.Distinct = append(c.part.Distinct, k)
	}
	sort.Slice(c.part.Distinct, func(i, j int) bool { return c.part.Distinct[i] < c.part.Distinct[j] })
	b, err := json.Marshal(&c.part)
	if err != nil {
		return err
	}
	return os.WriteFile(path, b, 0644)
}

// PropFunc is a property's workload + monitors.
type PropFunc func(c *Ctx)

// Spec describes one property check.
type Spec struct {
	ID              string
	Run             PropFunc
	Level           string // evidence "level"
	Rule            string // how cases are generated / what is distinct & non-trivial
	Assume          []string
	Builds          []string             // extra sanitizer builds used by this check: "race", "asan"
	SanFrac         int                  // sanitizer workers get 1/SanFrac of the seeds (0 = none)
	MinEvents       int64                // a run that observed fewer monitor events is a broken check
	EventKey        string               // counter that must reach MinEvents
	Workers         int                  // 0 = 16
	Stall           time.Duration        // progress watchdog override
	WorkerEnv       func(i int) []string // extra environment of plain worker i
	HangIsViolation bool
}

var registry = map[string]*Spec{}

func Register(s *Spec)       { registry[s.ID] = s }
func Lookup(id string) *Spec { return registry[id] }
func IDs() []string {
	var ids []string
	for k := range registry {
		ids = append(ids, k)
	}
	sort.Strings(ids)
	return ids
}
