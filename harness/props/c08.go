package props

import (
	"fmt"
	"math"
	"math/rand"
	"sort"
	"strings"

	"github.com/goghcrow/yae/parser"
	"github.com/goghcrow/yae/parser/ast"
	"github.com/goghcrow/yae/parser/lexer"
	"github.com/goghcrow/yae/parser/oper"
	"github.com/goghcrow/yae/parser/pos"
	"github.com/goghcrow/yae/parser/token"

	"verif/harness/ref"
	"verif/harness/run"
)

// ---- the real parser's tree as an S-expression with spans ----

type spanRec struct {
	sexp string
	p    pos.Pos
}

func realSexp(e ast.Expr, eraseGroups bool, spans *[]spanRec) string {
	var s string
	kids := func(head string, xs ...ast.Expr) string {
		var b strings.Builder
		b.WriteString("(" + head)
		for _, x := range xs {
			b.WriteString(" " + realSexp(x, eraseGroups, spans))
		}
		b.WriteString(")")
		return b.String()
	}
	switch x := e.(type) {
	case *ast.IdentExpr:
		s = x.Name
	case *ast.NumExpr:
		s = x.Text
	case *ast.StrExpr:
		s = x.Text
	case *ast.TimeExpr:
		s = x.Text
	case *ast.BoolExpr:
		s = x.Text
	case *ast.GroupExpr:
		if eraseGroups {
			return realSexp(x.SubExpr, eraseGroups, spans)
		}
		s = kids("grp", x.SubExpr)
	case *ast.ListExpr:
		s = kids("list", x.Elems...)
	case *ast.MapExpr:
		var b strings.Builder
		b.WriteString("(map")
		for _, p := range x.Pairs {
			b.WriteString(" " + realSexp(p.Key, eraseGroups, spans) + "=>" + realSexp(p.Val, eraseGroups, spans))
		}
		b.WriteString(")")
		s = b.String()
	case *ast.ObjExpr:
		var b strings.Builder
		b.WriteString("(obj")
		for _, f := range x.Fields {
			b.WriteString(" " + f.Name + "=" + realSexp(f.Val, eraseGroups, spans))
		}
		b.WriteString(")")
		s = b.String()
	case *ast.UnaryExpr:
		if x.Prefix {
			s = kids("pre "+x.Name, x.LHS)
		} else {
			s = kids("post "+x.Name, x.LHS)
		}
	case *ast.BinaryExpr:
		s = kids("bin "+x.Name, x.LHS, x.RHS)
	case *ast.TenaryExpr:
		s = kids("tern "+x.Name, x.Left, x.Mid, x.Right)
	case *ast.CallExpr:
		s = kids("call", append([]ast.Expr{x.Callee}, x.Args...)...)
	case *ast.SubscriptExpr:
		s = kids("sub", x.Var, x.Idx)
	case *ast.MemberExpr:
		s = kids("mem "+x.Field.Name, x.Obj)
	default:
		s = fmt.Sprintf("<unknown %T>", e)
	}
	if spans != nil {
		*spans = append(*spans, spanRec{s, e.Position()})
	}
	return s
}

func refSpans(n *ref.Node, out *[]spanRec) {
	for i, k := range n.Kids {
		if n.Kind == "map" {
			refSpans(n.Keys[i], out)
		}
		refSpans(k, out)
	}
	*out = append(*out, spanRec{n.Sexp(false), pos.Pos{Idx: n.Idx, IdxEnd: n.IdxEnd, Col: n.Col, Line: n.Line}})
}

// ---- operator tables ----

type opTable struct {
	name string
	decl []ref.OpDecl
	ops  []oper.Operator
}

func toOper(d []ref.OpDecl) []oper.Operator {
	fx := map[ref.Fixity]oper.Fixity{ref.Prefix: oper.PREFIX, ref.InfixN: oper.INFIX_N, ref.InfixL: oper.INFIX_L, ref.InfixR: oper.INFIX_R, ref.Postfix: oper.POSTFIX}
	out := make([]oper.Operator, len(d))
	for i, o := range d {
		out[i] = oper.Operator{Kind: token.Kind(o.Name), BP: oper.BP(o.BP), Fixity: fx[o.Fix]}
	}
	return out
}

func builtinTable() opTable {
	var d []ref.OpDecl
	fx := map[oper.Fixity]ref.Fixity{oper.PREFIX: ref.Prefix, oper.INFIX_N: ref.InfixN, oper.INFIX_L: ref.InfixL, oper.INFIX_R: ref.InfixR, oper.POSTFIX: ref.Postfix}
	for _, o := range oper.BuiltIn() {
		d = append(d, ref.OpDecl{Name: string(o.Kind), BP: float64(o.BP), Fix: fx[o.Fixity]})
	}
	return opTable{"builtin", d, append([]oper.Operator(nil), oper.BuiltIn()...)}
}

var opNames = []string{"+", "-", "*", "**", "^", "==", "<", "<=>", "|>", "~", "!", "@", "#", "&&", "||", "->", "=>", "in", "xor", "and", "not", "mod", "是", "$", "%", "<<", "::", "=", "&"}
var bpPool = []float64{0.5, 1, 1.5, 2, 2.5, 3, 4, 4.5, 5, 5.5, 6, 7, 8, 9, 9.5, 10, 10.5, 11, 11.5, 12, 12.5, 13, 13.5, 14}

func randomTable(r *rand.Rand, id int) opTable {
	n := 3 + r.Intn(6)
	names := append([]string(nil), opNames...)
	r.Shuffle(len(names), func(i, j int) { names[i], names[j] = names[j], names[i] })
	scale := []float64{1, 1, 1, 10, 100, 3}[r.Intn(6)]
	var d []ref.OpDecl
	for i := 0; i < n; i++ {
		fix := ref.Fixity(r.Intn(5))
		bp := bpPool[r.Intn(len(bpPool))]
		if r.Intn(3) == 0 && len(d) > 0 {
			bp = d[r.Intn(len(d))].BP / scale // equal power, maybe different associativity
		}
		d = append(d, ref.OpDecl{Name: names[i], BP: bp * scale, Fix: fix})
		// the same spelling as prefix and infix (like '-')
		if fix != ref.Prefix && r.Intn(4) == 0 {
			d = append(d, ref.OpDecl{Name: names[i], BP: bpPool[r.Intn(len(bpPool))] * scale, Fix: ref.Prefix})
		}
	}
	return opTable{fmt.Sprintf("rand%d", id), d, toOper(d)}
}

func (t opTable) String() string {
	var xs []string
	for _, d := range t.decl {
		xs = append(xs, fmt.Sprintf("%s:%v:%s", d.Name, d.BP, [...]string{"prefix", "infixn", "infixl", "infixr", "postfix"}[d.Fix]))
	}
	return t.name + "{" + strings.Join(xs, " ") + "}"
}

// ---- tokens laid out in source text ----

func kindOf(lexeme string, t opTable) string {
	switch lexeme {
	case ",", ":", "(", ")", "[", "]", "{", "}", "?", ".", "true", "false":
		return lexeme
	}
	for _, d := range t.decl {
		if d.Name == lexeme {
			return lexeme
		}
	}
	r := []rune(lexeme)[0]
	switch {
	case r >= '0' && r <= '9':
		return "<num>"
	case r == '"' || r == '`':
		return "<str>"
	case r == '\'':
		return "<time>"
	}
	return "<sym>"
}

// layout joins lexemes with the given separators and computes positions.
func layout(lexemes []string, seps []string, t opTable) (string, []ref.Tok, []*token.Token) {
	var sb strings.Builder
	var rt []ref.Tok
	var yt []*token.Token
	idx, line, col := 0, 0, 0
	adv := func(s string) {
		for _, r := range s {
			sb.WriteRune(r)
			idx++
			if r == '\n' {
				line++
				col = 0
			} else {
				col++
			}
		}
	}
	for i, lx := range lexemes {
		adv(seps[i%len(seps)])
		k := kindOf(lx, t)
		tok := ref.Tok{Kind: k, Lexeme: lx, Idx: idx, Line: line, Col: col}
		adv(lx)
		tok.IdxEnd = idx
		rt = append(rt, tok)
		yt = append(yt, &token.Token{Kind: token.Kind(k), Lexeme: lx, Pos: pos.Pos{Idx: tok.Idx, IdxEnd: tok.IdxEnd, Col: tok.Col, Line: tok.Line}})
	}
	return sb.String(), rt, yt
}

func realParse(t opTable, toks []*token.Token) (e ast.Expr, err string) {
	defer func() {
		if r := recover(); r != nil {
			e, err = nil, fmt.Sprint(r)
		}
	}()
	return parser.NewParser(append([]oper.Operator(nil), t.ops...)).Parse(toks), ""
}

// realLexParse: the same table, from source text through the real lexer.
func realLexParse(t opTable, src string) (e ast.Expr, err string) {
	defer func() {
		if r := recover(); r != nil {
			e, err = nil, fmt.Sprint(r)
		}
	}()
	toks := lexer.NewLexer(append([]oper.Operator(nil), t.ops...)).Lex(src)
	return parser.NewParser(append([]oper.Operator(nil), t.ops...)).Parse(toks), ""
}

// checkParse: accept/reject, tree and spans against the reference parser.
func checkParse(c *run.Ctx, t opTable, lexemes []string, seps []string) (accepted bool, tree string) {
	src, rt, yt := layout(lexemes, seps, t)
	c.Count("token_strings_parsed", 1)
	got, err := realParse(t, yt)
	want, werr := ref.NewRefParser(t.decl).Parse(rt)
	q := fmt.Sprintf("%q under %s", src, t)
	if err != "" {
		if werr == nil {
			c.Violation("parser-rejects", fmt.Sprintf("parsing %s is rejected (%s); the declarations dictate %s", q, err, want.Sexp(false)), nil)
		} else if !strings.Contains(err, "syntax error") && !strings.Contains(err, "invalid num literal") && !strings.Contains(err, "invalid string literal") && !strings.Contains(err, "expect right pos") {
			c.Violation("parser-fault", fmt.Sprintf("parsing %s fails with a non-syntax error: %s", q, err), nil)
		}
		return false, ""
	}
	var spans []spanRec
	gs := realSexp(got, false, &spans)
	if werr != nil {
		c.Violation("parser-accepts", fmt.Sprintf("parsing %s yields %s; it must be rejected (%v)", q, gs, werr), nil)
		return true, gs
	}
	if ws := want.Sexp(false); ws != gs {
		c.Violation("wrong-tree", fmt.Sprintf("parsing %s yields %s; the declarations dictate %s", q, gs, ws), nil)
		return true, gs
	}
	var wspans []spanRec
	refSpans(want, &wspans)
	c.Count("spans_checked", len(spans))
	if len(spans) != len(wspans) {
		c.Violation("span", fmt.Sprintf("parsing %s: %d nodes vs %d reference nodes", q, len(spans), len(wspans)), nil)
		return true, gs
	}
	for i := range spans {
		if spans[i].p != wspans[i].p {
			c.Violation("span", fmt.Sprintf("parsing %s: node %s records span %+v, its text covers %+v", q, spans[i].sexp, spans[i].p, wspans[i].p), nil)
			break
		}
	}
	return true, gs
}

// ---- law oracle: trees rendered with full / minimal / redundant parentheses ----

type ptree struct {
	extra int    // redundant pairs of parentheses around this node when it is an operand
	kind  string // leaf pre post bin tern call mem sub list
	op    ref.OpDecl
	text  string
	kids  []*ptree
}

func genTree(r *rand.Rand, t opTable, d int) *ptree {
	p := genTree0(r, t, d)
	if r.Intn(12) == 0 {
		p.extra = 1 + r.Intn(2)
	}
	return p
}

// genChain: a deep, narrow tree: n operators applied one on top of the
// other, the previous tree as left operand, right operand or only operand.
func genChain(r *rand.Rand, t opTable, n int) *ptree {
	tr := genTree0(r, t, 0)
	if len(t.decl) == 0 {
		return tr
	}
	for i := 0; i < n; i++ {
		o := t.decl[r.Intn(len(t.decl))]
		switch o.Fix {
		case ref.Prefix:
			tr = &ptree{kind: "pre", op: o, kids: []*ptree{tr}}
		case ref.Postfix:
			tr = &ptree{kind: "post", op: o, kids: []*ptree{tr}}
		default:
			if r.Intn(2) == 0 {
				tr = &ptree{kind: "bin", op: o, kids: []*ptree{tr, genTree0(r, t, 0)}}
			} else {
				tr = &ptree{kind: "bin", op: o, kids: []*ptree{genTree0(r, t, 0), tr}}
			}
		}
		if r.Intn(9) == 0 {
			tr = &ptree{kind: "tern", kids: []*ptree{genTree0(r, t, 0), tr, genTree0(r, t, 0)}}
		}
	}
	return tr
}

func genTree0(r *rand.Rand, t opTable, d int) *ptree {
	leaves := []string{"a", "b", "c", "1", "2.5", "\"s\"", "true", "x1", "名"}
	if d <= 0 || r.Intn(5) == 0 {
		if r.Intn(6) == 0 {
			// an identifier that begins or ends with the spelling of a word-like
			// operator (or of true / false) and goes on with a letter
			words := []string{"true", "false"}
			for _, o := range t.decl {
				if ref.IsIdentLikeOp(o.Name) {
					words = append(words, o.Name)
				}
			}
			w := words[r.Intn(len(words))]
			tails := []string{"é", "名", "ß1", "x", "_", "1", "è_2", "Ω"}
			if r.Intn(4) == 0 {
				return &ptree{kind: "leaf", text: []string{"é", "名", "x", "_"}[r.Intn(4)] + w}
			}
			return &ptree{kind: "leaf", text: w + tails[r.Intn(len(tails))]}
		}
		return &ptree{kind: "leaf", text: leaves[r.Intn(len(leaves))]}
	}
	switch k := r.Intn(10); {
	case k < 6 && len(t.decl) > 0:
		o := t.decl[r.Intn(len(t.decl))]
		switch o.Fix {
		case ref.Prefix:
			return &ptree{kind: "pre", op: o, kids: []*ptree{genTree(r, t, d-1)}}
		case ref.Postfix:
			return &ptree{kind: "post", op: o, kids: []*ptree{genTree(r, t, d-1)}}
		default:
			return &ptree{kind: "bin", op: o, kids: []*ptree{genTree(r, t, d-1), genTree(r, t, d-1)}}
		}
	case k == 6:
		return &ptree{kind: "tern", kids: []*ptree{genTree(r, t, d-1), genTree(r, t, d-1), genTree(r, t, d-1)}}
	case k == 7:
		n := r.Intn(3)
		if r.Intn(4) == 0 {
			n = 3 + r.Intn(7) // long argument lists (slice capacity effects)
		}
		ks := []*ptree{genTree(r, t, d-1)}
		if r.Intn(3) == 0 {
			ks[0] = &ptree{kind: "mem", text: "f", kids: []*ptree{genTree(r, t, d-1)}} // method call
		}
		for i := 0; i < n; i++ {
			ks = append(ks, genTree(r, t, d-1))
		}
		return &ptree{kind: "call", kids: ks}
	case k == 8:
		return &ptree{kind: "mem", text: []string{"f", "g", "名"}[r.Intn(3)], kids: []*ptree{genTree(r, t, d-1)}}
	default:
		if r.Intn(2) == 0 {
			return &ptree{kind: "sub", kids: []*ptree{genTree(r, t, d-1), genTree(r, t, d-1)}}
		}
		n := r.Intn(3)
		var ks []*ptree
		for i := 0; i < n; i++ {
			ks = append(ks, genTree(r, t, d-1))
		}
		return &ptree{kind: "list", kids: ks}
	}
}

func (p *ptree) sexp() string {
	switch p.kind {
	case "leaf":
		return p.text
	case "pre", "post", "bin":
		s := "(" + p.kind + " " + p.op.Name
		for _, k := range p.kids {
			s += " " + k.sexp()
		}
		return s + ")"
	case "tern":
		return "(tern ? " + p.kids[0].sexp() + " " + p.kids[1].sexp() + " " + p.kids[2].sexp() + ")"
	case "mem":
		return "(mem " + p.text + " " + p.kids[0].sexp() + ")"
	}
	s := "(" + p.kind
	for _, k := range p.kids {
		s += " " + k.sexp()
	}
	return s + ")"
}

// full renders with parentheses around every composite operand.
func (p *ptree) full(out *[]string) {
	wrap := func(k *ptree) {
		if (k.kind == "leaf" || k.kind == "list") && k.extra == 0 {
			k.full(out)
			return
		}
		for i := 0; i <= k.extra; i++ {
			*out = append(*out, "(")
		}
		k.full(out)
		for i := 0; i <= k.extra; i++ {
			*out = append(*out, ")")
		}
	}
	switch p.kind {
	case "leaf":
		*out = append(*out, p.text)
	case "pre":
		*out = append(*out, p.op.Name)
		wrap(p.kids[0])
	case "post":
		wrap(p.kids[0])
		*out = append(*out, p.op.Name)
	case "bin":
		wrap(p.kids[0])
		*out = append(*out, p.op.Name)
		wrap(p.kids[1])
	case "tern":
		wrap(p.kids[0])
		*out = append(*out, "?")
		wrap(p.kids[1])
		*out = append(*out, ":")
		wrap(p.kids[2])
	case "call":
		// a parenthesised member callee would change meaning (method call): only
		// wrap non-member callees
		if p.kids[0].kind == "mem" || p.kids[0].kind == "leaf" {
			p.kids[0].full(out)
		} else {
			wrap(p.kids[0])
		}
		*out = append(*out, "(")
		for i, k := range p.kids[1:] {
			if i > 0 {
				*out = append(*out, ",")
			}
			wrap(k)
		}
		*out = append(*out, ")")
	case "mem":
		wrap(p.kids[0])
		*out = append(*out, ".", p.text)
	case "sub":
		wrap(p.kids[0])
		*out = append(*out, "[")
		wrap(p.kids[1])
		*out = append(*out, "]")
	case "list":
		*out = append(*out, "[")
		for i, k := range p.kids {
			if i > 0 {
				*out = append(*out, ",")
			}
			wrap(k)
		}
		*out = append(*out, "]")
	}
}

func runC08(c *run.Ctx) {
	bt := builtinTable()
	seps := [][]string{{" "}, {""}, {" ", "  ", "\n", "\t "}, {"\n  "}}
	// 1. exhaustive token strings over a small alphabet
	exh := opTable{name: "exh", decl: []ref.OpDecl{
		{Name: "~", BP: 10, Fix: ref.Prefix}, {Name: "+", BP: 7, Fix: ref.InfixL}, {Name: "^", BP: 9, Fix: ref.InfixR},
		{Name: "==", BP: 5, Fix: ref.InfixN}, {Name: "@", BP: 11, Fix: ref.Postfix}, {Name: "+", BP: 10, Fix: ref.Prefix}}}
	exh.ops = toOper(exh.decl)
	alpha := []string{"a", "1", "~", "+", "^", "==", "@", "(", ")", "[", "]", "{", "}", ",", ":", "?", "."}
	maxLen := c.Pick(4, 5)
	extra := c.Pick(5, 6) // sampled length
	n := 0
	var rec func(pre []string)
	rec = func(pre []string) {
		if len(pre) > 0 {
			n++
			if c.Mine(n) {
				lx := append([]string(nil), pre...)
				c.Case("exh/"+strings.Join(lx, " "), func() {
					if ok, tree := checkParse(c, exh, lx, seps[0]); ok {
						c.Distinct("exh" + tree)
					}
				})
			}
		}
		if len(pre) == maxLen {
			return
		}
		for _, a := range alpha {
			rec(append(pre, a))
		}
	}
	rec(nil)
	c.Count("exhaustive_token_strings", n)
	for i := 0; i < c.Pick(150000, 3000000); i++ {
		if !c.Mine(i) {
			continue
		}
		r := c.Rng("exh-sample", i)
		lx := make([]string, extra+r.Intn(3))
		for j := range lx {
			lx[j] = alpha[r.Intn(len(alpha))]
		}
		c.Case(fmt.Sprintf("exhs/%d", i), func() {
			c.Input(strings.Join(lx, " "))
			if ok, tree := checkParse(c, exh, lx, seps[i%len(seps)]); ok {
				c.Distinct("exh" + tree)
			}
		})
	}
	// 2. law oracle + reference parser on random tables and trees
	nt := c.Pick(300, 15000)
	per := c.Pick(120, 300)
	for ti := 0; ti < nt; ti++ {
		if !c.Mine(ti) {
			continue
		}
		r := c.Rng("table", ti)
		t := bt
		if ti%5 != 0 {
			t = randomTable(r, ti)
		}
		// a sibling table: the same operators in the same order, binding powers
		// shifted by a fraction (same integer part where possible); both are
		// used alternately in this process
		sib := opTable{name: t.name + "-sibling"}
		for _, d := range t.decl {
			d2 := d
			if float64(int(d.BP)) == d.BP || int(d.BP) == 0 {
				d2.BP = d.BP + []float64{0.125, 0.25, 0.375}[r.Intn(3)]
			} else {
				d2.BP = float64(int(d.BP)) // (a power of 0 would make the operator unusable)
			}
			sib.decl = append(sib.decl, d2)
		}
		sib.ops = toOper(sib.decl)
		// a second sibling: the same order of binding powers, squeezed into
		// consecutive float32 values (gaps of exactly one ulp) above a base
		// whose mantissa is a power of two, >= 1.5 or neither
		adj := opTable{name: t.name + "-adjacent"}
		{
			var levels []float64
			for _, d := range t.decl {
				levels = append(levels, d.BP)
			}
			sort.Float64s(levels)
			rank := map[float64]int{}
			for _, l := range levels {
				if _, ok := rank[l]; !ok {
					rank[l] = len(rank)
				}
			}
			baseBP := []float32{2, 3, 4, 6, 7, 7.5, 8, 12, 5, 9, 1, 0.75}[r.Intn(12)]
			for _, d := range t.decl {
				bp := baseBP
				for k := 0; k < rank[d.BP]; k++ {
					bp = math.Nextafter32(bp, float32(math.Inf(1)))
				}
				d2 := d
				d2.BP = float64(bp)
				adj.decl = append(adj.decl, d2)
			}
			adj.ops = toOper(adj.decl)
		}
		base := t
		for k := 0; k < per; k++ {
			id := fmt.Sprintf("law/%d/%d", ti, k)
			t := base
			if k%2 == 1 {
				t = sib
			}
			if k%5 == 2 {
				t = adj
			}
			c.Case(id, func() {
				tr := genTree(r, t, 1+r.Intn(4))
				if k%29 == 7 {
					tr = genChain(r, t, []int{20, 33, 48, 64, 65, 100}[r.Intn(6)])
				}
				var lx []string
				tr.full(&lx)
				src, _, yt := layout(lx, seps[k%len(seps)], t)
				c.Input(src + " under " + t.String())
				c.Count("law_trees", 1)
				got, err := realParse(t, yt)
				if err != "" {
					c.Violation("law-rejects", fmt.Sprintf("fully parenthesised %q under %s is rejected: %s (tree %s)", src, t, err, tr.sexp()), nil)
				} else if gs := realSexp(got, true, nil); gs != tr.sexp() {
					c.Violation("law-tree", fmt.Sprintf("fully parenthesised %q under %s parses as %s, not %s", src, t, gs, tr.sexp()), nil)
				}
				// and the same text through the real lexer: the tree is still the one
				// the table dictates (only layouts whose text reads back as the same
				// lexemes: separators may be empty, and "a" "and" glued is another word)
				var names []string
				for _, d := range t.decl {
					names = append(names, d.Name)
				}
				rtoks, rerr := ref.NewRefLexer(names).Lex(src)
				same := rerr == nil && len(rtoks) == len(lx)
				for i := 0; same && i < len(lx); i++ {
					same = rtoks[i].Lexeme == lx[i]
				}
				if !same {
					c.Count("law_texts_ambiguous", 1)
				} else if got2, err2 := realLexParse(t, src); err2 != "" {
					c.Violation("law-rejects", fmt.Sprintf("the text %q (fully parenthesised) under %s is rejected: %s (tree %s)", src, t, err2, tr.sexp()), nil)
				} else if gs := realSexp(got2, true, nil); gs != tr.sexp() {
					c.Violation("law-tree", fmt.Sprintf("the text %q (fully parenthesised) under %s parses as %s, not %s", src, t, gs, tr.sexp()), nil)
				} else {
					c.Count("law_trees_from_text", 1)
				}
				// the same token string (and its paren-dropping variants) against the reference parser
				checkParse(c, t, lx, seps[k%len(seps)])
				for try := 0; try < 3; try++ {
					lx2 := dropParenPair(r, lx)
					if lx2 == nil {
						break
					}
					if ok, tree := checkParse(c, t, lx2, seps[(k+try)%len(seps)]); ok {
						c.Distinct(t.name + tree)
					}
					lx = lx2
				}
				if k == 0 && ti%97 == 0 {
					c.Sample(map[string]interface{}{"table": t.String(), "source": src, "tree": tr.sexp()})
				}
			})
		}
		// 3. every ordered pair of infix operators, and non-associative chains in every context
		c.Case(fmt.Sprintf("pairs/%d", ti), func() {
			var infix []ref.OpDecl
			for _, d := range t.decl {
				if d.Fix == ref.InfixL || d.Fix == ref.InfixR || d.Fix == ref.InfixN {
					infix = append(infix, d)
				}
			}
			for _, o1 := range infix {
				for _, o2 := range infix {
					checkParse(c, t, []string{"a", o1.Name, "b", o2.Name, "c"}, seps[0])
					checkParse(c, t, []string{"a", o1.Name, "b", o2.Name, "c", o1.Name, "d"}, seps[0])
				}
				if o1.Fix == ref.InfixN {
					n := o1.Name
					ctxs := [][]string{
						{"a", n, "b", n, "c"}, {"(", "a", n, "b", ")", n, "c"}, {"a", n, "(", "b", n, "c", ")"},
						{"[", "a", n, "b", n, "c", "]"}, {"f", "(", "a", n, "b", n, "c", ")"}, {"x", "?", "a", n, "b", n, "c", ":", "d"},
						{"x", "?", "d", ":", "a", n, "b", n, "c"}, {"a", n, "b", n, "c", "?", "x", ":", "y"}, {"{", "k", ":", "a", n, "b", n, "c", "}"},
						{"[", "k", ":", "a", n, "b", n, "c", "]"}, {"xs", "[", "a", n, "b", n, "c", "]"},
					}
					for _, lo := range infix {
						ctxs = append(ctxs, []string{"a", n, "b", n, "c", lo.Name, "d"}, []string{"d", lo.Name, "a", n, "b", n, "c"},
							[]string{"a", n, "b", lo.Name, "c", n, "d"})
					}
					for _, cx := range ctxs {
						checkParse(c, t, cx, seps[0])
					}
				}
			}
		})
	}
	// 4. malformed input: token-level mutations of valid renderings
	for i := 0; i < c.Pick(40000, 2500000); i++ {
		if !c.Mine(i) {
			continue
		}
		r := c.Rng("malformed", i)
		t := bt
		if i%3 != 0 {
			t = randomTable(r, i%50)
		}
		c.Case(fmt.Sprintf("mal/%d", i), func() {
			tr := genTree(r, t, 1+r.Intn(3))
			var lx []string
			tr.full(&lx)
			pool := []string{"(", ")", "[", "]", "{", "}", ",", ":", "?", ".", "a", "1", "1.5.5", "0x8000000000000000", "\"\\/\"", "\"a\nb\"", "`r`", "'2020-01-01'", "true"}
			for _, d := range t.decl {
				pool = append(pool, d.Name)
			}
			for m := 0; m < 1+r.Intn(3); m++ {
				j := r.Intn(len(lx))
				switch r.Intn(4) {
				case 0:
					lx = append(lx[:j:j], lx[j+1:]...)
				case 1:
					lx = append(lx[:j+1:j+1], append([]string{pool[r.Intn(len(pool))]}, lx[j+1:]...)...)
				case 2:
					lx[j] = pool[r.Intn(len(pool))]
				default:
					k := r.Intn(len(lx))
					lx[j], lx[k] = lx[k], lx[j]
				}
				if len(lx) == 0 {
					lx = []string{"a"}
				}
			}
			c.Input(strings.Join(lx, " ") + " under " + t.String())
			if ok, tree := checkParse(c, t, lx, seps[i%len(seps)]); ok {
				c.Distinct(t.name + tree)
			}
		})
	}
}

// dropParenPair removes one matching pair of parentheses that is not a call's
// argument list (the reference parser decides whether the tree changes).
func dropParenPair(r *rand.Rand, lx []string) []string {
	var opens []int
	for i, s := range lx {
		if s == "(" && (i == 0 || !endsOperand(lx[i-1])) {
			opens = append(opens, i)
		}
	}
	if len(opens) == 0 {
		return nil
	}
	o := opens[r.Intn(len(opens))]
	depth := 0
	for j := o; j < len(lx); j++ {
		if lx[j] == "(" {
			depth++
		}
		if lx[j] == ")" {
			depth--
			if depth == 0 {
				out := append([]string(nil), lx[:o]...)
				out = append(out, lx[o+1:j]...)
				return append(out, lx[j+1:]...)
			}
		}
	}
	return nil
}

func endsOperand(s string) bool {
	switch s {
	case ")", "]", "}":
		return true
	}
	r := []rune(s)[0]
	return r == '"' || r == '\'' || r == '`' || (r >= '0' && r <= '9') || (r >= 'a' && r <= 'z') || r > 127 || r == '_'
}

func init() {
	run.Register(&run.Spec{
		ID: "C08", Run: runC08, Level: "exploration",
		Rule: "(1) every token string of length <= 4 (quick) / <= 5 (thorough) over {a 1 prefix infixl infixr infixn postfix ( ) [ ] { } , : ? .} plus sampled longer ones, exhaustive: true for that space; " +
			"(2) random operator tables (3-8 operators, all fixities, binding powers 0.5..14 incl. values between and equal to built-in levels, equal powers with different associativity, powers scaled x3/x10/x100, one spelling as prefix and infix; symbolic and identifier-like names) and the built-in table, random trees to depth 4 rendered fully parenthesised (law oracle: parse == tree) and with parenthesis pairs dropped one by one; " +
			"(3) every ordered pair / triple of infix operators of each table and non-associative chains in 11+ contexts; (4) token-level mutations (malformed input, undecodable literals). " +
			"deep narrow trees of 20..100 stacked operators; every law tree also from its source text through the real lexer; monitors: accept/reject + tree vs an independent reference precedence parser; node-by-node source span (Idx, IdxEnd, Line, Col) vs the span of the tokens the reference consumed. distinct = distinct accepted tree per table",
		Assume:    []string{"tokens are built by the harness with exact positions (the lexer is C09's subject)", "reference parser mirrors the documented permissiveness: trailing comma in list/map/object not in arguments, any token as member name"},
		MinEvents: 50000, EventKey: "token_strings_parsed",
	})
}
