package props

import (
	"fmt"
	"math/rand"
	"reflect"
	"time"

	yae "github.com/goghcrow/yae"
	"github.com/goghcrow/yae/conv"
	"github.com/goghcrow/yae/types"
	"github.com/goghcrow/yae/val"

	"verif/harness/bridge"
	"verif/harness/ref"
	"verif/harness/run"
)

func convGuard(f func() error) (err error, panicked string) {
	defer func() {
		if r := recover(); r != nil {
			panicked = fmt.Sprint(r)
		}
	}()
	return f(), ""
}

// checkConv applies the conversion oracles to one Go value with its expected
// reference value (nil: no static type exists, only totality is checked).
func checkConv(c *run.Ctx, desc string, gv reflect.Value, want *ref.V) (ok bool) {
	c.Count("values_converted", 1)
	iv := gv.Interface()
	var v *val.Val
	var t *types.Type
	err, p := convGuard(func() error { var e error; v, e = conv.ValOf(iv); return e })
	if p != "" {
		c.Violation("conv-panic", fmt.Sprintf("ValOf(%s) panics: %s", desc, p), nil)
		return false
	}
	terr, p := convGuard(func() error { var e error; t, e = conv.TypeOf(iv); return e })
	if p != "" {
		c.Violation("conv-panic", fmt.Sprintf("TypeOf(%s) panics: %s", desc, p), nil)
		return false
	}
	if want == nil {
		return false
	}
	if err != nil {
		c.Violation("conv-rejects", fmt.Sprintf("ValOf(%s) fails (%v); the value is supported and should convert to %s", desc, err, ref.Dump(want)), nil)
		return false
	}
	if terr != nil {
		c.Violation("conv-rejects", fmt.Sprintf("TypeOf(%s) fails (%v) although ValOf succeeds", desc, terr), nil)
		return false
	}
	rv, ierr := bridge.FromVal(v, v.Type)
	if ierr != nil {
		c.Violation("conv-ill-formed", fmt.Sprintf("ValOf(%s) is not a well-formed value: %v", desc, ierr), nil)
		return false
	}
	rt, rerr := bridge.FromType(t)
	if rerr != nil || !ref.Eq(rt, rv.T) || !types.Equals(t, v.Type) {
		c.Violation("conv-type-vs-value", fmt.Sprintf("TypeOf(%s) = %s but ValOf(..).Type = %s", desc, tyCanon(rt), rv.T.Canon()), nil)
		return false
	}
	if !ref.Eq(rv.T, want.T) {
		c.Violation("conv-type", fmt.Sprintf("%s converts to type %s; its Go shape dictates %s", desc, rv.T.Canon(), want.T.Canon()), nil)
		return false
	}
	if !ref.Same(rv, want) {
		c.Violation("conv-content", fmt.Sprintf("%s converts to %s; its contents are %s", desc, ref.Dump(rv), ref.Dump(want)), nil)
		return false
	}
	return true
}

type unsupported struct {
	C chan int
}

func c15ErrorCases() map[string]interface{} {
	var np *int
	var ns []int
	var nm map[string]int
	deep := func(d int) interface{} {
		var v interface{} = 1
		for i := 0; i < d; i++ {
			v = []interface{}{v}
		}
		return v
	}
	return map[string]interface{}{
		"untyped nil": nil, "nil pointer": np, "nil slice": ns, "nil map": nm,
		"mixed interface slice": []interface{}{1, "a"}, "mixed nested interface slice": []interface{}{[]interface{}{1}, []interface{}{"a"}},
		"interface slice of structs differing in a field type":       []interface{}{struct{ A interface{} }{1}, struct{ A interface{} }{"x"}},
		"struct slice differing in an interface field":               []struct{ V interface{} }{{1}, {"ten"}},
		"struct slice with nil and non-nil untagged pointer":         []struct{ P *int }{{new(int)}, {nil}},
		"nested interface slices differing":                          [][]interface{}{{1, 10}, {"x", "ten"}},
		"map values differing":                                       map[string]interface{}{"a": 1, "b": "x"},
		"typed map of interface slices differing":                    map[string][]interface{}{"a": {1}, "b": {"x"}},
		"typed map of maps differing":                                map[int]map[string]interface{}{1: {"k": 1}, 2: {"k": "s"}},
		"typed map of structs with nil and non-nil untagged pointer": map[string]struct{ P *int }{"a": {new(int)}, "b": {nil}},
		"typed map keyed by interface differing":                     map[interface{}]int{1: 1, "a": 2},
		"chan":                                                       make(chan int), "func": func() {}, "complex": complex(1, 2), "uintptr": uintptr(1),
		"struct with chan": unsupported{make(chan int)}, "slice of func": []func(){func() {}}, "map with chan values": map[string]chan int{"a": nil},
		"map with struct keys":       map[struct{ A int }]int{{1}: 1},
		"nil inside interface slice": []interface{}{nil}, "nil element pointer": []*int{nil},
		"depth 101": deep(101), "depth 150": deep(150),
		"duplicate field names": struct {
			A int `yae:"x"`
			B int `yae:"x"`
		}{1, 2},
	}
}

// Go types declared inside different functions may share package path and
// name ("row"); they are different types and convert independently.
func c15LocalA() (empty, full interface{}, t *ref.Ty, v *ref.V) {
	type row struct {
		A float64 `yae:"a"`
		B string  `yae:"b"`
	}
	t = ref.TObj(ref.F("a", ref.TNum), ref.F("b", ref.TStr))
	return []row{}, []row{{1, "x"}}, t, ref.VObj(t, ref.VNum(1), ref.VStr("x"))
}

func c15LocalB() (empty, full interface{}, t *ref.Ty, v *ref.V) {
	type row struct {
		N  []string `yae:"n"`
		Ok bool     `yae:"ok"`
	}
	t = ref.TObj(ref.F("n", ref.TList(ref.TStr)), ref.F("ok", ref.TBool))
	return []row{}, []row{{[]string{"p"}, true}}, t, ref.VObj(t, ref.VList(ref.TStr, ref.VStr("p")), ref.VBool(true))
}

func c15LocalC() (empty, full interface{}, t *ref.Ty, v *ref.V) {
	type row struct {
		A string `yae:"a"` // same field name as in c15LocalA, other type
	}
	t = ref.TObj(ref.F("a", ref.TStr))
	return []row{}, []row{{"s"}}, t, ref.VObj(t, ref.VStr("s"))
}

func c15LocalD() (empty, full interface{}, t *ref.Ty, v *ref.V) {
	type row struct {
		B string  `yae:"b"`
		A float64 `yae:"a"`
		C float64 `yae:"c"`
	}
	t = ref.TObj(ref.F("b", ref.TStr), ref.F("a", ref.TNum), ref.F("c", ref.TNum))
	return map[string]row{}, map[string]row{"k": {"y", 2, 3}}, t, ref.VObj(t, ref.VStr("y"), ref.VNum(2), ref.VNum(3))
}

func c15SameNamedTypes(c *run.Ctx) {
	fs := []func() (interface{}, interface{}, *ref.Ty, *ref.V){c15LocalA, c15LocalB, c15LocalC, c15LocalD}
	perms := [][]int{{0, 1, 2, 3}, {3, 2, 1, 0}, {2, 0, 3, 1}, {1, 3, 0, 2}}
	for pi, perm := range perms {
		for _, emptyFirst := range []bool{true, false} {
			// the process-wide state depends on what was converted before: each
			// order in its own case; workers split them
			if !c.Mine(pi*2 + map[bool]int{true: 0, false: 1}[emptyFirst]) {
				continue
			}
			perm, emptyFirst := perm, emptyFirst
			c.Case(fmt.Sprintf("same-named-types/%d/%v", pi, emptyFirst), func() {
				for _, fi := range perm {
					empty, full, t, v := fs[fi]()
					wantEmpty, wantFull := ref.VList(t), ref.VList(t, v)
					if fi == 3 {
						wantEmpty, wantFull = ref.VMap(ref.TStr, t), ref.VMap(ref.TStr, t, ref.KV{K: ref.VStr("k"), V: v})
					}
					order := []struct {
						g interface{}
						w *ref.V
					}{{empty, wantEmpty}, {full, wantFull}}
					if !emptyFirst {
						order[0], order[1] = order[1], order[0]
					}
					for _, o := range order {
						checkConv(c, fmt.Sprintf("function-local type #%d named row: %#v", fi, o.g), reflect.ValueOf(o.g), o.w)
					}
					te, _ := conv.TypeOf(empty)
					tf, _ := conv.TypeOf(full)
					c.Count("type_stability_pairs", 1)
					if te == nil || tf == nil || !types.Equals(te, tf) {
						c.Violation("conv-type-unstable", fmt.Sprintf("the empty and the non-empty value of one Go type (function-local type #%d named row) get different types %v and %v", fi, te, tf), nil)
					}
				}
				c.Distinct(fmt.Sprintf("same-named-types/%d/%v", pi, emptyFirst))
			})
		}
	}
}

type c15P struct {
	A float64 `yae:"a"`
	B string  `yae:"b"`
	C []bool  `yae:"c"`
}

type c15Q struct { // the same fields as c15P, declared in another order
	C []bool  `yae:"c"`
	B string  `yae:"b"`
	A float64 `yae:"a"`
}

type c15R struct {
	B string  `yae:"b"`
	A float64 `yae:"a"`
	C []bool  `yae:"c"`
}

// interface-typed containers whose elements are different Go struct types of
// one object type (same field names and types, other declaration order)
func c15MixedLayouts(c *run.Ctx) {
	if !c.Mine(6) {
		return
	}
	c.Case("mixed-layouts", func() {
		t := ref.TObj(ref.F("a", ref.TNum), ref.F("b", ref.TStr), ref.F("c", ref.TList(ref.TBool)))
		mk := func(a float64, b string, cs ...bool) *ref.V {
			l := ref.VList(ref.TBool)
			for _, x := range cs {
				l.L = append(l.L, ref.VBool(x))
			}
			return ref.VObj(t, ref.VNum(a), ref.VStr(b), l)
		}
		p := func(a float64, b string, cs ...bool) c15P { return c15P{a, b, append([]bool{}, cs...)} }
		q := func(a float64, b string, cs ...bool) c15Q { return c15Q{append([]bool{}, cs...), b, a} }
		r := func(a float64, b string, cs ...bool) c15R { return c15R{b, a, append([]bool{}, cs...)} }
		cases := []struct {
			desc string
			g    interface{}
			w    *ref.V
		}{
			{"[]interface{}{P, Q, P}", []interface{}{p(1, "x", true), q(2, "y"), p(3, "z", false)}, ref.VList(t, mk(1, "x", true), mk(2, "y"), mk(3, "z", false))},
			{"[]interface{}{Q, P, R, Q}", []interface{}{q(1, "x"), p(2, "y", true), r(3, "z"), q(4, "w", false, true)}, ref.VList(t, mk(1, "x"), mk(2, "y", true), mk(3, "z"), mk(4, "w", false, true))},
			{"[3]interface{}{R, P, Q}", [3]interface{}{r(1, "x"), p(2, "y"), q(3, "z")}, ref.VList(t, mk(1, "x"), mk(2, "y"), mk(3, "z"))},
			{"map[string]interface{}{P, Q}", map[string]interface{}{"k1": p(1, "x"), "k2": q(2, "y", true)}, ref.VMap(ref.TStr, t, ref.KV{K: ref.VStr("k1"), V: mk(1, "x")}, ref.KV{K: ref.VStr("k2"), V: mk(2, "y", true)})},
			{"[][]interface{}{{P}, {Q, R}}", [][]interface{}{{p(1, "x")}, {q(2, "y"), r(3, "z")}}, ref.VList(ref.TList(t), ref.VList(t, mk(1, "x")), ref.VList(t, mk(2, "y"), mk(3, "z")))},
			{"[]interface{}{&P, Q}", []interface{}{&c15P{1, "x", []bool{}}, q(2, "y")}, nil},
		}
		for _, tc := range cases {
			ok := checkConv(c, tc.desc, reflect.ValueOf(tc.g), tc.w)
			if !ok || tc.w == nil {
				continue
			}
			// the elements keep their own fields when the expression reads them by name
			for i := 0; i < 2; i++ {
				src := fmt.Sprintf("v[%d].a", i)
				if tc.w.T.K == ref.KMap {
					src = fmt.Sprintf("v[\"k%d\"].a", i+1)
				} else if tc.w.T.El.K == ref.KList {
					src = fmt.Sprintf("v[%d][0].a", i)
				}
				val0, err := yae.Eval(src, map[string]interface{}{"v": tc.g})
				want := float64(i + 1)
				if err != nil || val0.Type.Kind != types.KNum || val0.Num().V != want {
					c.Violation("conv-content", fmt.Sprintf("%s over %s yields %s (%v); the element's field a is %v", src, tc.desc, safeStr(val0), err, want), nil)
				}
			}
		}
		c.Distinct("mixed-layouts")
	})
}

// time keys that differ only below the second stay distinct entries
func c15TimeKeys(c *run.Ctx) {
	if !c.Mine(5) {
		return
	}
	c.Case("time-keys", func() {
		base := time.Unix(1655296245, 0)
		for _, step := range []time.Duration{time.Nanosecond, time.Microsecond, time.Millisecond, 250 * time.Millisecond, time.Second, time.Hour} {
			m := map[time.Time]float64{}
			want := ref.VMap(ref.TTime, ref.TNum)
			for i := 0; i < 5; i++ {
				k := base.Add(time.Duration(i) * step)
				m[k] = float64(i)
				want.MapPut(ref.VTime(k), ref.VNum(float64(i)))
			}
			checkConv(c, fmt.Sprintf("map[time.Time]float64 with 5 keys %v apart", step), reflect.ValueOf(m), want)
			// and the entries can be looked up one by one
			v, err := conv.ValOf(m)
			if err != nil {
				continue
			}
			for k, x := range m {
				got, ok := v.Map().Get(val.Time(k))
				if !ok || got.Num().V != x {
					c.Violation("conv-content", fmt.Sprintf("map[time.Time]float64 with keys %v apart: the entry for %v reads %v (present=%v), the Go map holds %v", step, k, safeStr(got), ok, x), nil)
					break
				}
			}
		}
		c.Distinct("time-keys")
	})
}

func runC15(c *run.Ctx) {
	c15SameNamedTypes(c)
	c15TimeKeys(c)
	c15MixedLayouts(c)
	n := c.Pick(4000, 600000)
	for i := 0; i < n; i++ {
		if !c.Mine(i) {
			continue
		}
		r := c.Rng("shape", i)
		c.Case(fmt.Sprintf("shape/%d", i), func() {
			h := &hostGen{r: r, noIface: i%3 != 0}
			sh := h.shape(1 + r.Intn(3))
			c.Input(sh.Desc)
			// a value that may leave untagged nil-able parts nil (type follows the value)
			gv, want := sh.Gen(r, false)
			checkConv(c, sh.Desc+fmt.Sprintf(" = %#v", gv.Interface()), gv, want)
			c.Distinct(sh.Desc)
			// pairs of values of one Go type satisfying the precondition: same type
			if sh.Ty == nil {
				return
			}
			g1, w1 := sh.Gen(r, true)
			g2, w2 := sh.Gen(r, true)
			if w1 == nil || w2 == nil {
				return
			}
			ok1 := checkConv(c, sh.Desc+fmt.Sprintf(" = %#v", g1.Interface()), g1, w1)
			ok2 := checkConv(c, sh.Desc+fmt.Sprintf(" = %#v", g2.Interface()), g2, w2)
			if !ok1 || !ok2 {
				return
			}
			c.Count("type_stability_pairs", 1)
			if !ref.Eq(w1.T, sh.Ty) || !ref.Eq(w2.T, sh.Ty) {
				c.Violation("harness-shape", fmt.Sprintf("shape %s: generator disagrees with its own static type", sh.Desc), nil)
				return
			}
			t1, _ := conv.TypeOf(g1.Interface())
			t2, _ := conv.TypeOf(g2.Interface())
			if !types.Equals(t1, t2) {
				c.Violation("conv-type-unstable", fmt.Sprintf("two values of the Go type %s get different types %s and %s (%#v / %#v)", sh.Desc, t1, t2, g1.Interface(), g2.Interface()), nil)
				return
			}
			// compile against the first sample, invoke with the second
			env1 := map[string]interface{}{"v": g1.Interface(), "k": 1}
			env2 := map[string]interface{}{"v": g2.Interface(), "k": 2}
			var e1, e2 interface{} = env1, env2
			if sh.GoT.Kind() == reflect.Struct && sh.GoT != tTime && r.Intn(2) == 0 {
				e1, e2 = g1.Interface(), g2.Interface()
				if r.Intn(2) == 0 {
					p := reflect.New(sh.GoT)
					p.Elem().Set(g2)
					e2 = p.Interface()
				}
			}
			err, p := convGuard(func() error {
				cl, err := yae.NewExpr().Compile("1", e1)
				if err != nil {
					return fmt.Errorf("compile: %v", err)
				}
				_, err = cl(e2)
				return err
			})
			if p != "" || err != nil {
				c.Violation("conv-sample-rejected", fmt.Sprintf("an expression compiled against one value of the Go type %s rejects another value of that type: %v %s (%#v / %#v)", sh.Desc, err, p, g1.Interface(), g2.Interface()), nil)
			}
			if i%701 == 0 {
				c.Sample(map[string]string{"go_type": sh.Desc, "value": fmt.Sprintf("%#v", g1.Interface()), "type": sh.Ty.Decl(), "converted": ref.Dump(w1)})
			}
		})
	}
	// large uniform collections: one element (whose untagged nil-able parts may
	// be nil) repeated up to and beyond typical fast-path sizes, as slice, array
	// and map values
	for i := 0; i < c.Pick(900, 100000); i++ {
		if !c.Mine(i) {
			continue
		}
		r := c.Rng("uniform", i)
		c.Case(fmt.Sprintf("uniform/%d", i), func() {
			h := &hostGen{r: r, noIface: i%4 != 0}
			el := h.shape(1 + r.Intn(2))
			ev, ee := el.Gen(r, false)
			if ee == nil {
				return
			}
			n := hostBigSize(r)
			if r.Intn(4) == 0 {
				n = []int{1, 2, 31, 32, 33, 63, 64, 65, 66, 129, 513}[r.Intn(11)]
			}
			var gv reflect.Value
			want := &ref.V{}
			desc := ""
			switch r.Intn(3) {
			case 0:
				gv = reflect.MakeSlice(reflect.SliceOf(el.GoT), n, n)
				for k := 0; k < n; k++ {
					gv.Index(k).Set(ev)
					want.L = append(want.L, ee)
				}
				want.T = ref.TList(ee.T)
				desc = fmt.Sprintf("[]%s x%d", el.Desc, n)
			case 1:
				gv = reflect.New(reflect.ArrayOf(n, el.GoT)).Elem()
				for k := 0; k < n; k++ {
					gv.Index(k).Set(ev)
					want.L = append(want.L, ee)
				}
				want.T = ref.TList(ee.T)
				desc = fmt.Sprintf("[%d]%s", n, el.Desc)
			default:
				gv = reflect.MakeMap(reflect.MapOf(reflect.TypeOf(0), el.GoT))
				for k := 0; k < n; k++ {
					gv.SetMapIndex(reflect.ValueOf(k), ev)
					want.M = append(want.M, ref.KV{K: ref.VNum(float64(k)), V: ee})
				}
				want.T = ref.TMap(ref.TNum, ee.T)
				desc = fmt.Sprintf("map[int]%s x%d", el.Desc, n)
			}
			c.Input(desc)
			c.Count("uniform_collections", 1)
			if checkConv(c, desc, gv, want) {
				// the value as environment entry: compile against it, run on it
				env := map[string]interface{}{"v": gv.Interface()}
				if err, p := convGuard(func() error {
					cl, err := yae.NewExpr().Compile("len(v)", env)
					if err != nil {
						return err
					}
					out, err := cl(env)
					if err == nil && out.Num().V != float64(n) {
						return fmt.Errorf("len(v) = %v", out.Num().V)
					}
					return err
				}); err != nil || p != "" {
					c.Violation("conv-sample-rejected", fmt.Sprintf("an expression compiled against %s rejects that same value: %v %s", desc, err, p), nil)
				}
			}
			c.Distinct(desc)
		})
	}
	// error classes: an error, neither a panic nor success
	ec := c15ErrorCases()
	var names []string
	for k := range ec {
		names = append(names, k)
	}
	sortStrings(names)
	for i, name := range names {
		if !c.Mine(i) {
			continue
		}
		name := name
		c.Case("error/"+name, func() {
			c.Count("error_class_cases", 1)
			// TypeOf may fall back to the static Go type when the value itself cannot
			// be converted (that is how a type is derived from a zero / nil sample);
			// nil slices / maps nested inside other data read as empty containers
			staticOK := map[string]bool{"nil slice": true, "nil map": true, "nil pointer": true, "nil element pointer": true,
				"struct slice with nil and non-nil untagged pointer": true, "typed map of structs with nil and non-nil untagged pointer": true}
			nestedOK := map[string]bool{"nil slice": true, "nil map": true}
			for _, api := range []string{"ValOf", "TypeOf", "ValEnvOf(map)", "TypeEnvOf(map)"} {
				var err error
				var p string
				if (api == "TypeOf" || api == "TypeEnvOf(map)") && staticOK[name] {
					continue
				}
				if (api == "ValEnvOf(map)" || api == "TypeEnvOf(map)") && nestedOK[name] {
					continue
				}
				switch api {
				case "ValOf":
					err, p = convGuard(func() error { _, e := conv.ValOf(ec[name]); return e })
				case "TypeOf":
					if name == "nil slice" || name == "nil map" || name == "nil pointer" || name == "nil element pointer" {
						continue // a type can be derived from the static Go type alone
					}
					err, p = convGuard(func() error { _, e := conv.TypeOf(ec[name]); return e })
				case "ValEnvOf(map)":
					err, p = convGuard(func() error { _, e := conv.ValEnvOf(map[string]interface{}{"x": ec[name]}); return e })
				default:
					if name == "nil slice" || name == "nil map" || name == "nil pointer" || name == "nil element pointer" {
						continue
					}
					err, p = convGuard(func() error { _, e := conv.TypeEnvOf(map[string]interface{}{"x": ec[name]}); return e })
				}
				if p != "" {
					c.Violation("conv-panic", fmt.Sprintf("%s(%s) panics: %s", api, name, p), nil)
				} else if err == nil {
					c.Violation("conv-accepts-unsupported", fmt.Sprintf("%s(%s) succeeds; unsupported or inconsistent data must be reported as an error", api, name), nil)
				}
			}
			c.Distinct("error/" + name)
		})
	}
	_ = rand.Int
}

func init() {
	run.Register(&run.Spec{
		ID: "C15", Run: runC15, Level: "exploration",
		Rule: "Go types built by reflection (StructOf / SliceOf / ArrayOf / MapOf / PtrTo / interface{} boxing, depth <= 3): every numeric kind with its extreme values (MaxUint64, 2^63, 2^53+1, MaxFloat32 ...), strings incl. invalid UTF-8, time.Time and pointers to it, structs with renamed / untagged / optional fields (tag spelling variants), nil and non-nil pointers / slices / maps in optional and plain fields, empty and non-empty containers (sizes 0-3 and around 8..256, 513), maps keyed by string / integer kinds / time, large uniform slices / arrays / maps of one repeated element whose untagged nil-able parts may be nil; " +
			"monitor: reference expectation generated together with the value: ValOf succeeds, the result is well-formed (walker), TypeOf(v) == ValOf(v).Type == type dictated by the Go shape, contents equal (numbers as doubles, instants, order, entries, fields under tag names); for interface-free shapes whose nil-able parts are non-nil or optional: two random values get equal types and 'compile against the first, invoke with the second' is accepted (as map entry, struct, pointer to struct); 26 error classes (nil, mixed interface data, nil / non-nil untagged pointers in one slice, unsupported kinds, depth 101 / 150, duplicate field names) must return an error from ValOf / TypeOf / ValEnvOf / TypeEnvOf. Go types declared inside different functions under one name, empty and non-empty values in every conversion order; map[time.Time] keys 1 ns .. 1 h apart; interface-typed slices / arrays / maps whose elements are different Go struct types of one object type (other declaration order). distinct = distinct Go type",
		Assume:    []string{"map keys that collide as doubles are not generated (inherent to 'numbers as doubles')"},
		MinEvents: 5000, EventKey: "values_converted",
	})
}
