package props

import (
	"fmt"
	"math"
	"time"

	"verif/harness/bridge"
	"verif/harness/ref"
)

// confusableCases: a string literal whose text is exactly a rendering of
// another literal of the same program (a time, a number, a boolean), in
// either order: each keeps its own kind.
func confusableCases() []*ProgCase {
	var out []*ProgCase
	env := bridge.NewEnv()
	env.Put("b", ref.VBool(true))
	env.Put("i", ref.VNum(1))
	type pair struct {
		lit   *ref.E
		texts []string
	}
	var pairs []pair
	for _, form := range []string{"2021-03-04 05:06:07", "@1614834367", "2021-03-04", "2000-01-01T00:00:00Z"} {
		ts, ok := ref.RefStrtotime(form, time.Local)
		if !ok {
			continue
		}
		tm := time.Unix(ts, 0)
		pairs = append(pairs, pair{ref.Time(form, ts), []string{tm.String(), tm.UTC().String(), tm.Format(time.RFC3339), tm.Format("2006-01-02 15:04:05"),
			fmt.Sprintf("@%d", ts), fmt.Sprint(ts), form, "'" + form + "'"}})
	}
	for _, n := range []string{"1", "0", "1.5", "1000000", "1e6", "0x10", "-1"} {
		if n == "-1" {
			pairs = append(pairs, pair{ref.CallF(ref.FPrefix, "-", ref.Num("1", 1)), []string{"-1"}})
			continue
		}
		v := ref.LitValue(n)
		pairs = append(pairs, pair{ref.Num(n, v), []string{n, ref.Show(ref.VNum(v)), fmt.Sprint(v), fmt.Sprintf("%g", v), fmt.Sprintf("%v.0", v)}})
	}
	pairs = append(pairs, pair{ref.Bool(true), []string{"true", "True", "1"}}, pair{ref.Bool(false), []string{"false", "0", ""}})
	k := 0
	for _, p := range pairs {
		for _, txt := range p.texts {
			s := func() *ref.E { return ref.Str(txt) }
			l := func() *ref.E { return p.lit.Clone() }
			progs := []*ref.E{
				ref.Obj([]string{"t", "s"}, []*ref.E{l(), s()}),
				ref.Obj([]string{"s", "t"}, []*ref.E{s(), l()}),
				ref.List(ref.Call("string", l()), s()),
				ref.Map([]*ref.E{s()}, []*ref.E{l()}),
				ref.Call("if", ref.Ident("b"), s(), ref.Call("string", l())),
				ref.Obj([]string{"a", "b", "c"}, []*ref.E{ref.List(s(), s()), ref.List(l(), l()), ref.CallF(ref.FInfix, "==", ref.Call("string", l()), s())}),
				ref.Subscript(ref.List(ref.Obj([]string{"x", "y"}, []*ref.E{l(), s()}), ref.Obj([]string{"y", "x"}, []*ref.E{s(), l()})), ref.Ident("i")),
			}
			for pi, e := range progs {
				k++
				out = append(out, &ProgCase{ID: fmt.Sprintf("confusable/%d/%d", k, pi), Src: ref.Render(e), E: e, Env: env})
			}
		}
	}
	return out
}

// timeLocationCases: equal instants carried in different Go representations
// (UTC, fixed zones, local, with sub-second parts) compared directly and
// inside containers.
func timeLocationCases() []*ProgCase {
	var out []*ProgCase
	base := time.Unix(1655296245, 0)
	env := bridge.NewEnv()
	env.Put("tl", ref.VTime(base.In(time.Local)))
	env.Put("tu", ref.VTime(base.UTC()))
	env.Put("tz", ref.VTime(base.In(time.FixedZone("X", 3600))))
	env.Put("tw", ref.VTime(base.In(time.FixedZone("", -5*3600))))
	env.Put("tn", ref.VTime(base.Add(time.Nanosecond).UTC()))
	env.Put("to", ref.VTime(base.Add(time.Hour).UTC()))
	names := []string{"tl", "tu", "tz", "tw", "tn", "to"}
	lit := func() *ref.E { return ref.Time("@1655296245", 1655296245) }
	k := 0
	add := func(e *ref.E) {
		k++
		out = append(out, &ProgCase{ID: fmt.Sprintf("time-location/%d", k), Src: ref.Render(e), E: e, Env: env})
	}
	for _, x := range names {
		for _, y := range names {
			X, Y := func() *ref.E { return ref.Ident(x) }, func() *ref.E { return ref.Ident(y) }
			for _, op := range []string{"==", "!=", "<", "<=", ">", ">="} {
				add(ref.CallF(ref.FInfix, op, X(), Y()))
			}
			add(ref.CallF(ref.FInfix, "-", X(), Y()))
			add(ref.CallF(ref.FInfix, "==", ref.List(X()), ref.List(Y())))
			add(ref.Call("len", ref.Call("union", ref.List(X()), ref.List(Y()))))
			add(ref.Call("if", ref.CallF(ref.FInfix, "==", X(), Y()), ref.Num("1", 1), ref.Num("2", 2)))
		}
		X := func() *ref.E { return ref.Ident(x) }
		add(ref.CallF(ref.FInfix, "==", X(), lit()))
		add(ref.CallF(ref.FInfix, "!=", lit(), X()))
		add(ref.CallF(ref.FInfix, "==", X(), ref.Call("strtotime", ref.Str("@1655296245"))))
		add(ref.CallF(ref.FInfix, "==", ref.Call("strtotime", ref.Str("2022-06-15T12:30:45Z")), X()))
	}
	return out
}

// layoutEqualityCases: objects of one type whose fields are laid out in
// different orders; two num fields, so that comparing slot by slot and
// comparing by name disagree.
func layoutEqualityCases() []*ProgCase {
	var out []*ProgCase
	tAB := ref.TObj(ref.F("a", ref.TNum), ref.F("b", ref.TNum))
	tBA := ref.TObj(ref.F("b", ref.TNum), ref.F("a", ref.TNum))
	env := bridge.NewEnv()
	env.PutTyped("p", tAB, ref.VObj(tAB, ref.VNum(1), ref.VNum(2))) // {a:1, b:2}
	env.PutTyped("q", tAB, ref.VObj(tBA, ref.VNum(2), ref.VNum(1))) // {b:2, a:1} == p
	env.PutTyped("r", tAB, ref.VObj(tBA, ref.VNum(1), ref.VNum(2))) // {b:1, a:2} != p, slot-wise alike
	env.PutTyped("s", tAB, ref.VObj(tAB, ref.VNum(2), ref.VNum(1))) // {a:2, b:1} == r
	forms := map[string]func() *ref.E{
		"p": func() *ref.E { return ref.Ident("p") }, "q": func() *ref.E { return ref.Ident("q") },
		"r": func() *ref.E { return ref.Ident("r") }, "s": func() *ref.E { return ref.Ident("s") },
		"P": func() *ref.E { return ref.Obj([]string{"a", "b"}, []*ref.E{ref.Num("1", 1), ref.Num("2", 2)}) },
		"Q": func() *ref.E { return ref.Obj([]string{"b", "a"}, []*ref.E{ref.Num("2", 2), ref.Num("1", 1)}) },
		"R": func() *ref.E { return ref.Obj([]string{"b", "a"}, []*ref.E{ref.Num("1", 1), ref.Num("2", 2)}) },
	}
	order := []string{"p", "q", "r", "s", "P", "Q", "R"}
	k := 0
	add := func(e *ref.E) {
		k++
		out = append(out, &ProgCase{ID: fmt.Sprintf("layout-eq/%d", k), Src: ref.Render(e), E: e, Env: env})
	}
	for _, x := range order {
		for _, y := range order {
			X, Y := forms[x], forms[y]
			add(ref.CallF(ref.FInfix, "==", X(), Y()))
			add(ref.CallF(ref.FInfix, "!=", X(), Y()))
			add(ref.CallF(ref.FInfix, "==", ref.List(X()), ref.List(Y())))
			add(ref.CallF(ref.FInfix, "==", ref.List(X(), Y()), ref.List(Y(), X())))
			add(ref.CallF(ref.FInfix, "==", ref.Map([]*ref.E{ref.Str("k")}, []*ref.E{X()}), ref.Map([]*ref.E{ref.Str("k")}, []*ref.E{Y()})))
			add(ref.CallF(ref.FInfix, "==", ref.Obj([]string{"f", "g"}, []*ref.E{X(), ref.Num("0", 0)}), ref.Obj([]string{"g", "f"}, []*ref.E{ref.Num("0", 0), Y()})))
			add(ref.Call("len", ref.Call("union", ref.List(X()), ref.List(Y()))))
			add(ref.Call("len", ref.Call("intersect", ref.List(X(), X()), ref.List(Y()))))
			add(ref.Call("len", ref.Call("diff", ref.List(X()), ref.List(Y()))))
			add(ref.CallF(ref.FInfix, "==", ref.List(ref.List(X())), ref.List(ref.List(Y()))))
		}
	}
	return out
}

// collisionCases: elements whose naive renderings / joins coincide although
// the values differ (set functions and == over nested strings).
func collisionCases() []*ProgCase {
	var out []*ProgCase
	env := bridge.NewEnv()
	ls := func(ss ...string) *ref.V {
		l := ref.VList(ref.TStr)
		for _, s := range ss {
			l.L = append(l.L, ref.VStr(s))
		}
		return l
	}
	groups := [][]*ref.V{
		{ls(`a", "b`), ls("a", "b"), ls("a, b"), ls(`a","b`), ls(`"a", "b"`), ls("a", "", "b"), ls(`a\", \"b`)},
		{ls(""), ls(), ls("", ""), ls(`", "`), ls(`""`), ls("[]"), ls(" ")},
		{ls("a", "b, c"), ls("a, b", "c"), ls("a", "b", "c"), ls("a, b, c"), ls("[a, b]", "c"), ls("a]", "[b")},
		{ls("1"), ls("1", "2"), ls("1, 2"), ls("12"), ls("1,2"), ls("[1, 2]")},
	}
	k := 0
	add := func(e *ref.E, env *bridge.Env) {
		k++
		out = append(out, &ProgCase{ID: fmt.Sprintf("collision/%d", k), Src: ref.Render(e), E: e, Env: env})
	}
	for gi, g := range groups {
		genv := bridge.NewEnv()
		var names []string
		for i, v := range g {
			n := fmt.Sprintf("v%d", i)
			genv.Put(n, v)
			names = append(names, n)
		}
		all := ref.VList(ref.TList(ref.TStr), g...)
		genv.Put("all", all)
		rev := ref.VList(ref.TList(ref.TStr))
		for i := len(g) - 1; i >= 0; i-- {
			rev.L = append(rev.L, g[i])
		}
		genv.Put("rev", rev)
		A, R := func() *ref.E { return ref.Ident("all") }, func() *ref.E { return ref.Ident("rev") }
		add(ref.Call("len", ref.Call("union", A(), R())), genv)
		add(ref.Call("union", A(), A()), genv)
		add(ref.Call("intersect", A(), R()), genv)
		add(ref.Call("len", ref.Call("diff", A(), R())), genv)
		for _, x := range names {
			for _, y := range names {
				X, Y := ref.Ident(x), ref.Ident(y)
				add(ref.Call("len", ref.Call("union", ref.List(X), ref.List(Y))), genv)
				add(ref.Call("diff", A(), ref.List(X.Clone(), Y.Clone())), genv)
				add(ref.CallF(ref.FInfix, "==", X.Clone(), Y.Clone()), genv)
				add(ref.Call("len", ref.Call("intersect", ref.List(ref.Map([]*ref.E{ref.Str("k")}, []*ref.E{X.Clone()})), ref.List(ref.Map([]*ref.E{ref.Str("k")}, []*ref.E{Y.Clone()})))), genv)
				add(ref.Call("len", ref.Call("union", ref.List(ref.Obj([]string{"f"}, []*ref.E{X.Clone()})), ref.List(ref.Obj([]string{"f"}, []*ref.E{Y.Clone()})))), genv)
			}
		}
		_ = gi
	}
	_ = env
	return out
}

// deepMismatchCases: two literals that agree for d levels of list / map /
// object nesting and differ at the leaf (num vs str, plain vs optional
// cannot be written as a literal), side by side where equal types are required.
func deepMismatchCases() []*ProgCase {
	var out []*ProgCase
	env := bridge.NewEnv()
	env.Put("b", ref.VBool(true))
	for _, d := range []int{1, 2, 3, 5, 8, 13, 21, 30, 31, 32, 33, 34, 40, 47, 48, 49, 50, 64, 65} {
		for style := 0; style < 2; style++ {
			mk := func(leaf *ref.E) *ref.E {
				e := leaf
				for k := 0; k < d; k++ {
					switch (k * (style + 1)) % 3 {
					case 0:
						e = ref.List(e)
					case 1:
						e = ref.Map([]*ref.E{ref.Str("k")}, []*ref.E{e})
					default:
						e = ref.Obj([]string{"f"}, []*ref.E{e})
					}
				}
				return e
			}
			n1, n2, s1 := func() *ref.E { return mk(ref.Num("1", 1)) }, func() *ref.E { return mk(ref.Num("2", 2)) }, func() *ref.E { return mk(ref.Str("s")) }
			progs := []*ref.E{
				ref.List(n1(), s1()), ref.List(n1(), n2()), ref.Call("if", ref.Ident("b"), n1(), s1()), ref.Call("if", ref.Ident("b"), n1(), n2()),
				ref.CallF(ref.FInfix, "==", n1(), s1()), ref.CallF(ref.FInfix, "==", n1(), n2()), ref.CallF(ref.FInfix, "==", n1(), n1()),
				ref.Call("len", ref.Call("union", ref.List(n1()), ref.List(n2(), n1()))), ref.Call("union", ref.List(n1()), ref.List(s1())),
				ref.Call("get", ref.List(n1()), ref.Num("3", 3), s1()), ref.Call("get", ref.List(n1()), ref.Num("3", 3), n2()),
			}
			for pi, e := range progs {
				out = append(out, &ProgCase{ID: fmt.Sprintf("deep-mismatch/%d/%d/%d", d, style, pi), Src: ref.Render(e), E: e, Env: env})
			}
		}
	}
	return out
}

// dynCallBranchCases: a dynamically dispatched call with n arguments inside
// the selected branch of a conditional, the branch padded so that its end
// offset sweeps a range: operand bytes (argument counts) take the value of
// every opcode while every small branch length occurs next to them.
func dynCallBranchCases(thorough bool, mine func(i int) bool) []*ProgCase {
	var out []*ProgCase
	argcs := []int{}
	for n := 40; n <= 70; n++ {
		argcs = append(argcs, n)
	}
	pads := 130
	if thorough {
		argcs = argcs[:0]
		for n := 1; n <= 120; n++ {
			argcs = append(argcs, n)
		}
		pads = 200
	}
	for _, n := range argcs {
		ps := make([]*ref.Ty, n)
		for i := range ps {
			ps[i] = ref.TNum
		}
		fT := ref.TFun(ps, ref.TNum)
		fn := &ref.Fun{Name: "f", Params: ps, Ret: ref.TNum, Impl: func(_ *ref.Evaluator, _ *ref.Ty, x []ref.Arg) *ref.V {
			s := 0.0
			for _, a := range x {
				s += a.V.N
			}
			return ref.VNum(s)
		}}
		env := bridge.NewEnv()
		env.Put("b", ref.VBool(true))
		env.Put("f", &ref.V{T: fT, Fn: fn})
		for k := 0; k <= pads; k++ {
			if !mine(len(out)) {
				out = append(out, nil) // built only in the worker that runs it
				continue
			}
			first := ref.Num("0", 0)
			for i := 0; i < k; i++ {
				first = ref.CallF(ref.FInfix, "+", first, ref.Num("0", 0))
			}
			args := []*ref.E{first}
			for i := 1; i < n; i++ {
				args = append(args, ref.Num("1", 1))
			}
			call := ref.DynCall(ref.Subscript(ref.List(ref.Ident("f")), ref.Num("0", 0)), args...)
			var e *ref.E
			switch (n + k) % 3 {
			case 0:
				e = ref.Call("if", ref.Ident("b"), ref.CallF(ref.FInfix, "+", call, ref.Num("1", 1)), ref.Num("0", 0))
			case 1:
				e = ref.CallF(ref.FTernary, "if", ref.Ident("b"), ref.CallF(ref.FInfix, "+", call, ref.Num("1", 1)), ref.Num("0", 0))
			default:
				e = ref.CallF(ref.FInfix, "&&", ref.Ident("b"), ref.CallF(ref.FInfix, ">", ref.CallF(ref.FInfix, "+", call, ref.Num("1", 1)), ref.Num("0", 0)))
			}
			out = append(out, &ProgCase{ID: fmt.Sprintf("dyn-branch/%d/%d", n, k), Src: fmt.Sprintf("<dynamic call with %d arguments in a branch padded by %d additions>", n, k), E: e, Env: env, AsAST: true,
				Back: []bridge.Backend{bridge.VM, bridge.Closure}})
		}
	}
	return out
}

// fullStackCallCases: a host call or a dynamic call made while exactly n
// operands are live, for n around every size at which the VM's stack is full.
func fullStackCallCases() []*ProgCase {
	var out []*ProgCase
	user := ref.UserFuns()
	env := bridge.NewEnv()
	env.Put("n", ref.VNum(3))
	fT := ref.TFun([]*ref.Ty{ref.TNum}, ref.TNum)
	env.Put("f", &ref.V{T: fT, Fn: &ref.Fun{Name: "f", Params: []*ref.Ty{ref.TNum}, Ret: ref.TNum, Impl: func(_ *ref.Evaluator, _ *ref.Ty, x []ref.Arg) *ref.V {
		return ref.VNum(x[0].V.N + 0.5)
	}}})
	for _, n := range []int{20, 21, 40, 41, 42, 43, 44, 540, 541, 542, 543, 544, 1040, 1041, 1042, 1043, 1044} {
		calls := []func() *ref.E{
			func() *ref.E { return tr("t", ref.Num("7", 7)) },
			func() *ref.E { return ref.Call("fst", ref.Ident("n"), ref.Num("1", 1)) },
			func() *ref.E {
				return ref.DynCall(ref.Subscript(ref.List(ref.Ident("f")), ref.Num("0", 0)), ref.Ident("n"))
			},
			func() *ref.E { return ref.Call("lzIf", ref.Bool(true), ref.Ident("n"), ref.Num("0", 0)) },
			func() *ref.E { return ref.Call("wrap", ref.Ident("n")) },
		}
		for ci, mk := range calls {
			for _, pos := range []int{n - 1, n - 2, 0, n / 2} {
				pos := pos
				el := func(i int) *ref.E {
					if i == pos {
						if ci == 4 {
							return ref.Call("len", mk())
						}
						return mk()
					}
					return numLit(i % 9)
				}
				e := ref.Call("len", wideList(n, el))
				out = append(out, &ProgCase{ID: fmt.Sprintf("full-stack/%d/%d/%d", n, ci, pos), Src: ref.Render(e), E: e, Env: env, User: user})
				ks, vs := make([]*ref.E, n/2), make([]*ref.E, n/2)
				for i := range ks {
					ks[i], vs[i] = numLit(i), numLit(i)
					if 2*i+1 == pos || 2*i == pos {
						vs[i] = el(pos)
					}
				}
				if n <= 600 {
					e2 := ref.Call("len", ref.Map(ks, vs))
					out = append(out, &ProgCase{ID: fmt.Sprintf("full-stack-map/%d/%d/%d", n, ci, pos), Src: ref.Render(e2), E: e2, Env: env, User: user})
				}
			}
		}
	}
	return out
}

// signedZeroCases: results whose only difference is the sign of zero, made
// visible by a division.
func signedZeroCases() []*ProgCase {
	var out []*ProgCase
	env := bridge.NewEnv()
	env.Put("pz", ref.VNum(0))
	env.Put("nz", ref.VNum(math.Copysign(0, -1)))
	zs := map[string]func() *ref.E{
		"pz": func() *ref.E { return ref.Ident("pz") }, "nz": func() *ref.E { return ref.Ident("nz") },
		"0": func() *ref.E { return ref.Num("0", 0) }, "-0": func() *ref.E { return ref.CallF(ref.FPrefix, "-", ref.Num("0", 0)) },
	}
	names := []string{"pz", "nz", "0", "-0"}
	k := 0
	add := func(e *ref.E) {
		k++
		out = append(out, &ProgCase{ID: fmt.Sprintf("signed-zero/%d", k), Src: ref.Render(e), E: e, Env: env})
	}
	one := func() *ref.E { return ref.Num("1", 1) }
	for _, x := range names {
		for _, y := range names {
			X, Y := zs[x], zs[y]
			for _, f := range []string{"max", "min"} {
				add(ref.CallF(ref.FInfix, "/", one(), ref.Call(f, X(), Y())))
				add(ref.CallF(ref.FInfix, "/", one(), ref.Call(f, ref.List(X(), Y()))))
				add(ref.Call(f, X(), Y()))
			}
			for _, op := range []string{"+", "-", "*"} {
				add(ref.CallF(ref.FInfix, "/", one(), ref.Group(ref.CallF(ref.FInfix, op, X(), Y()))))
			}
			add(ref.CallF(ref.FInfix, "/", one(), ref.Call("if", ref.CallF(ref.FInfix, "==", X(), Y()), X(), Y())))
			add(ref.CallF(ref.FInfix, "/", one(), ref.Subscript(ref.Call("union", ref.List(X()), ref.List(Y())), ref.Num("0", 0))))
		}
		X := zs[x]
		for _, f := range []string{"abs", "round", "floor", "ceil"} {
			add(ref.CallF(ref.FInfix, "/", one(), ref.Call(f, X())))
		}
		add(ref.CallF(ref.FInfix, "/", one(), ref.CallF(ref.FPrefix, "-", X())))
		add(ref.CallF(ref.FInfix, "^", X(), ref.CallF(ref.FPrefix, "-", one())))
		add(ref.Call("string", X()))
	}
	return out
}

// nearLiteralCases: two numeric literals of one program that the comparison
// tolerance cannot tell apart (or that differ only in sign of zero, or only
// in spelling), each observed through operations that are exact.
func nearLiteralCases() []*ProgCase {
	var out []*ProgCase
	env := bridge.NewEnv()
	env.Put("b", ref.VBool(true))
	pairs := [][2]string{
		{"1", "1.0000000005"}, {"1.0000000005", "1"}, {"1", "0.9999999995"}, {"2", "2.0000000001"}, {"1e9", "1000000000.0000001"},
		{"0.1", "0.10000000001"}, {"1e-10", "2e-10"}, {"0", "1e-12"}, {"1e-12", "0"}, {"100", "100.00000000001"}, {"3", "3.0000000009"},
		{"9007199254740992", "9007199254740993"}, {"1", "1.0"}, {"1e3", "1000"}, {"0x10", "16"}, {"0.5", "0.50000000004"},
	}
	num := func(s string) *ref.E { return ref.Num(s, ref.LitValue(s)) }
	k := 0
	add := func(e *ref.E) {
		k++
		out = append(out, &ProgCase{ID: fmt.Sprintf("near-literal/%d", k), Src: ref.Render(e), E: e, Env: env})
	}
	for _, p := range pairs {
		a, b := func() *ref.E { return num(p[0]) }, func() *ref.E { return num(p[1]) }
		add(ref.List(ref.Call("string", a()), ref.Call("string", b())))
		add(ref.CallF(ref.FInfix, "+", ref.Call("ceil", a()), ref.Call("ceil", b())))
		add(ref.CallF(ref.FInfix, "-", ref.Call("floor", b()), ref.Call("floor", a())))
		add(ref.CallF(ref.FInfix, "*", ref.Group(ref.CallF(ref.FInfix, "-", b(), a())), num("1e12")))
		add(ref.Obj([]string{"x", "y", "z"}, []*ref.E{a(), b(), a()}))
		add(ref.List(a(), b(), b(), a()))
		add(ref.Call("if", ref.Ident("b"), b(), a()))
		add(ref.Call("lzIf", ref.Ident("b"), ref.CallF(ref.FInfix, "*", b(), num("1e12")), ref.CallF(ref.FInfix, "*", a(), num("1e12"))))
		add(ref.CallF(ref.FInfix, "+", ref.Call("string", ref.Call("fst", a(), b())), ref.Call("string", ref.Call("fst", b(), a()))))
		add(ref.CallF(ref.FInfix, "/", num("1"), ref.Group(ref.CallF(ref.FInfix, "-", a(), b()))))
	}
	for i := range out {
		out[i].User = ref.UserFuns()
	}
	return out
}

// sharedOperandCases: one variable (one run-time node) used several times on
// one side of == / != / a set function, against equal and differing values
// held in other nodes.
func sharedOperandCases() []*ProgCase {
	var out []*ProgCase
	k := 0
	for _, inner := range []*ref.Ty{ref.TList(ref.TNum), ref.TMap(ref.TStr, ref.TNum), ref.TObj(ref.F("p", ref.TNum), ref.F("q", ref.TStr))} {
		mk := func(x float64) *ref.V {
			switch inner.K {
			case ref.KList:
				return ref.VList(ref.TNum, ref.VNum(x), ref.VNum(2))
			case ref.KMap:
				return ref.VMap(ref.TStr, ref.TNum, ref.KV{K: ref.VStr("k"), V: ref.VNum(x)})
			}
			return ref.VObj(inner, ref.VNum(x), ref.VStr("s"))
		}
		env := bridge.NewEnv()
		env.Put("m", mk(1))
		env.Put("a", mk(1))
		env.Put("b", mk(9))
		env.Put("o", ref.VObj(ref.TObj(ref.F("p", inner), ref.F("q", inner)), mk(1), mk(9)))
		id := func(n string) func() *ref.E { return func() *ref.E { return ref.Ident(n) } }
		M, A, B := id("m"), id("a"), id("b")
		sides := [][2]func() *ref.E{
			{func() *ref.E { return ref.List(M(), M()) }, func() *ref.E { return ref.List(A(), B()) }},
			{func() *ref.E { return ref.List(M(), M()) }, func() *ref.E { return ref.List(A(), A()) }},
			{func() *ref.E { return ref.List(M(), M(), M()) }, func() *ref.E { return ref.List(A(), M(), B()) }},
			{func() *ref.E { return ref.Obj([]string{"u", "v"}, []*ref.E{M(), M()}) }, func() *ref.E { return ref.Obj([]string{"u", "v"}, []*ref.E{A(), B()}) }},
			{func() *ref.E { return ref.Obj([]string{"u", "v"}, []*ref.E{M(), M()}) }, func() *ref.E { return ref.Obj([]string{"v", "u"}, []*ref.E{B(), A()}) }},
			{func() *ref.E { return ref.Map([]*ref.E{ref.Str("x"), ref.Str("y")}, []*ref.E{M(), M()}) }, func() *ref.E { return ref.Map([]*ref.E{ref.Str("x"), ref.Str("y")}, []*ref.E{A(), B()}) }},
			{func() *ref.E { return ref.List(ref.List(M()), ref.List(M())) }, func() *ref.E { return ref.List(ref.List(A()), ref.List(B())) }},
			{func() *ref.E { return ref.List(ref.Member(ref.Ident("o"), "p"), ref.Member(ref.Ident("o"), "p")) }, func() *ref.E { return ref.List(A(), B()) }},
			{func() *ref.E { return ref.List(M(), B(), M()) }, func() *ref.E { return ref.List(A(), B(), B()) }},
		}
		for _, s := range sides {
			for _, flip := range []bool{false, true} {
				l, r := s[0], s[1]
				if flip {
					l, r = r, l
				}
				progs := []*ref.E{
					ref.CallF(ref.FInfix, "==", l(), r()), ref.CallF(ref.FInfix, "!=", l(), r()),
					ref.Call("len", ref.Call("union", ref.List(l()), ref.List(r()))), ref.Call("len", ref.Call("intersect", ref.List(l()), ref.List(r()))),
					ref.CallF(ref.FInfix, "==", ref.Call("string", l()), ref.Call("string", r())),
					ref.Call("if", ref.CallF(ref.FInfix, "==", l(), r()), ref.Num("1", 1), ref.Num("2", 2)),
				}
				for _, e := range progs {
					k++
					out = append(out, &ProgCase{ID: fmt.Sprintf("shared-operand/%d", k), Src: ref.Render(e), E: e, Env: env})
				}
			}
		}
	}
	return out
}
