package props

import (
	"fmt"
	"math"
	"strconv"
	"strings"
	"time"
	"unicode/utf8"

	"verif/harness/bridge"
	"verif/harness/ref"
	"verif/harness/run"
)

// numbers for the sameness property: any two of them are identical or differ
// by (much) more than the tolerance
var c18Nums = []float64{0, 1, -1, 2, 0.5, -0.5, 1e-6, 3.75, 255, 1e6, 9007199254740992, 9007199254740994, 4611686018427387904,
	9223372036854774784, 9223372036854775808, -9223372036854775808, 18446744073709551616, 1e19, 10000000000000002048, 1e20, 1e300, -1e300, math.Inf(1), math.Inf(-1)}

var c18Strs = []string{"", "a", "A", "a ", "q\"uote", "q\\\"uote", "back\\slash", "line\nbreak", "line\\nbreak", "晓", "é", "é", "1", "true", "[1, 2]", "a, b", "{a: 1}", "\x00", "\xff"}

func c18Gen(g *ref.Gen, t *ref.Ty, d int) *ref.V {
	switch t.K {
	case ref.KNum:
		return ref.VNum(c18Nums[g.R.Intn(len(c18Nums))])
	case ref.KStr:
		return ref.VStr(c18Strs[g.R.Intn(len(c18Strs))])
	case ref.KTime:
		return ref.VTime(time.Unix([]int64{0, 1, 86400, 1655296245, -1}[g.R.Intn(5)], []int64{0, 0, 1, 500000000}[g.R.Intn(4)]))
	case ref.KBool:
		return ref.VBool(g.R.Intn(2) == 0)
	case ref.KList:
		out := &ref.V{T: t}
		for i := g.R.Intn(4); i > 0; i-- {
			out.L = append(out.L, c18Gen(g, t.El, d-1))
		}
		return out
	case ref.KMap:
		out := &ref.V{T: t}
		for i := g.R.Intn(4); i > 0; i-- {
			out.MapPut(c18Gen(g, t.Key, 0), c18Gen(g, t.Val, d-1))
		}
		return out
	case ref.KObj:
		out := &ref.V{T: t}
		for _, f := range t.Fs {
			out.O = append(out.O, c18Gen(g, f.T, d-1))
		}
		return out
	case ref.KMaybe:
		if g.R.Intn(3) == 0 {
			return ref.VNothing(t.El)
		}
		return ref.VJust(t.El, c18Gen(g, t.El, d-1))
	}
	panic("c18Gen: " + t.Canon())
}

// relayout copies v with permuted object field order and reversed map
// insertion order at every level (same content).
func relayout(g *ref.Gen, v *ref.V) *ref.V {
	switch v.T.K {
	case ref.KList:
		out := &ref.V{T: ref.TList(g.Permute(v.T.El))}
		for _, x := range v.L {
			out.L = append(out.L, relayout(g, x))
		}
		return out
	case ref.KMap:
		out := &ref.V{T: ref.TMap(v.T.Key, g.Permute(v.T.Val))}
		for i := len(v.M) - 1; i >= 0; i-- {
			out.M = append(out.M, ref.KV{K: v.M[i].K, V: relayout(g, v.M[i].V)})
		}
		return out
	case ref.KObj:
		idx := g.R.Perm(len(v.T.Fs))
		out := &ref.V{T: &ref.Ty{K: ref.KObj}}
		for _, i := range idx {
			x := relayout(g, v.O[i])
			out.T.Fs = append(out.T.Fs, ref.Fld{Name: v.T.Fs[i].Name, T: x.T})
			out.O = append(out.O, x)
		}
		return out
	case ref.KMaybe:
		if v.P == nil {
			return ref.VNothing(g.Permute(v.T.El))
		}
		p := relayout(g, v.P)
		return ref.VJust(p.T, p)
	}
	return v
}

// perturb changes one leaf by more than the tolerance (or the shape of one
// container); returns nil if nothing can be changed.
func perturb(g *ref.Gen, v *ref.V) *ref.V {
	c := *v
	switch v.T.K {
	case ref.KNum:
		for {
			n := c18Nums[g.R.Intn(len(c18Nums))]
			if n != v.N {
				c.N = n
				return &c
			}
		}
	case ref.KStr:
		for {
			s := c18Strs[g.R.Intn(len(c18Strs))]
			if s != v.S {
				c.S = s
				return &c
			}
		}
	case ref.KBool:
		c.B = !v.B
		return &c
	case ref.KTime:
		c.Tm = v.Tm.Add([]time.Duration{time.Nanosecond, time.Second, -time.Hour}[g.R.Intn(3)])
		return &c
	case ref.KList:
		if len(v.L) == 0 || g.R.Intn(4) == 0 {
			c.L = append(append([]*ref.V(nil), v.L...), c18Gen(g, v.T.El, 1))
			return &c
		}
		if len(v.L) >= 2 && g.R.Intn(4) == 0 {
			// a different order is a different list (unless the two are equal)
			c.L = append([]*ref.V(nil), v.L...)
			c.L[0], c.L[1] = c.L[1], c.L[0]
			return &c
		}
		i := g.R.Intn(len(v.L))
		p := perturb(g, v.L[i])
		if p == nil {
			return nil
		}
		c.L = append([]*ref.V(nil), v.L...)
		c.L[i] = p
		return &c
	case ref.KMap:
		if len(v.M) == 0 || g.R.Intn(3) == 0 {
			c.M = append([]ref.KV(nil), v.M...)
			(&c).MapPut(c18Gen(g, v.T.Key, 0), c18Gen(g, v.T.Val, 1))
			return &c
		}
		i := g.R.Intn(len(v.M))
		p := perturb(g, v.M[i].V)
		if p == nil {
			return nil
		}
		c.M = append([]ref.KV(nil), v.M...)
		c.M[i] = ref.KV{K: v.M[i].K, V: p}
		return &c
	case ref.KObj:
		if len(v.O) == 0 {
			return nil
		}
		i := g.R.Intn(len(v.O))
		p := perturb(g, v.O[i])
		if p == nil {
			return nil
		}
		c.O = append([]*ref.V(nil), v.O...)
		c.O[i] = p
		return &c
	case ref.KMaybe:
		if v.P == nil {
			c.P = c18Gen(g, v.T.El, 1)
			return &c
		}
		if g.R.Intn(3) == 0 {
			c.P = nil
			return &c
		}
		p := perturb(g, v.P)
		if p == nil {
			return nil
		}
		c.P = p
		return &c
	}
	return nil
}

func hasNaN(v *ref.V) bool {
	switch v.T.K {
	case ref.KNum:
		return math.IsNaN(v.N)
	case ref.KList:
		for _, x := range v.L {
			if hasNaN(x) {
				return true
			}
		}
	case ref.KMap:
		for _, kv := range v.M {
			if hasNaN(kv.K) || hasNaN(kv.V) {
				return true
			}
		}
	case ref.KObj:
		for _, x := range v.O {
			if hasNaN(x) {
				return true
			}
		}
	case ref.KMaybe:
		return v.P != nil && hasNaN(v.P)
	}
	return false
}

// litOf writes a value as a literal expression; nil when it has no literal
// form (non-finite numbers, sub-second times, invalid UTF-8, empty containers
// whose literal would have the bottom element type, optionals).
func litOf(v *ref.V) *ref.E {
	switch v.T.K {
	case ref.KNum:
		if math.IsNaN(v.N) || math.IsInf(v.N, 0) {
			return nil
		}
		a := math.Abs(v.N)
		e := ref.Num(ref.FmtNum(a), a)
		if math.Signbit(v.N) {
			return ref.CallF(ref.FPrefix, "-", e)
		}
		return e
	case ref.KStr:
		if !utf8.ValidString(v.S) || strings.ContainsRune(v.S, 0xFFFD) {
			return nil
		}
		return ref.Str(v.S)
	case ref.KBool:
		return ref.Bool(v.B)
	case ref.KTime:
		if v.Tm.Nanosecond() != 0 {
			return nil
		}
		return ref.Time("@"+strconv.FormatInt(v.Tm.Unix(), 10), v.Tm.Unix())
	case ref.KList:
		if len(v.L) == 0 {
			return nil
		}
		xs := make([]*ref.E, len(v.L))
		for i, x := range v.L {
			if xs[i] = litOf(x); xs[i] == nil {
				return nil
			}
		}
		return ref.List(xs...)
	case ref.KMap:
		if len(v.M) == 0 {
			return nil
		}
		ks, vs := make([]*ref.E, len(v.M)), make([]*ref.E, len(v.M))
		for i, kv := range v.M {
			ks[i], vs[i] = litOf(kv.K), litOf(kv.V)
			if ks[i] == nil || vs[i] == nil {
				return nil
			}
		}
		return ref.Map(ks, vs)
	case ref.KObj:
		fs, vs := make([]string, len(v.O)), make([]*ref.E, len(v.O))
		for i, f := range v.T.Fs {
			if !isPlainIdent(f.Name) && !isIdentLike(f.Name) {
				return nil
			}
			fs[i] = f.Name
			if vs[i] = litOf(v.O[i]); vs[i] == nil {
				return nil
			}
		}
		return ref.Obj(fs, vs)
	}
	return nil
}

func isIdentLike(s string) bool { return ref.IsIdentLikeOp(s) && !ref.Reserved(s) }

type c18Obs struct {
	eq, eqRev                    bool
	union, inter, diff           float64
	strA, strB, stringA, stringB string
	isset                        *bool
	maplen                       float64
	ok                           bool
}

func evalOn(c *run.Ctx, env *bridge.Env, e *ref.E) (*ref.V, string) {
	pc := &ProgCase{Src: ref.Render(e), E: e, Env: env, Back: []bridge.Backend{bridge.VM}}
	o := RunProg(pc)
	b := o.Back[bridge.VM]
	if b.CompErr != nil {
		return nil, "compile: " + b.CompErr.Error() + " :: " + pc.Src
	}
	if b.Res.Class != bridge.OValue || b.Ill != nil {
		return nil, b.describe() + " :: " + pc.Src
	}
	return b.RV, ""
}

// checkSameness evaluates the four notions of sameness on (a, b) bound as
// host data, and as literals when expressible.
func checkSameness(c *run.Ctx, a, b *ref.V, what string, precondition bool) {
	c.Count("pairs_checked", 1)
	env := bridge.NewEnv()
	env.Put("a", a)
	env.PutTyped("b", a.T, b)
	A, B := ref.Ident("a"), ref.Ident("b")
	la, lb := ref.List(A), ref.List(B)
	get := func(e *ref.E) *ref.V {
		v, err := evalOn(c, env, e)
		if err != "" {
			c.Violation("sameness-eval", fmt.Sprintf("%s: %s (a=%s b=%s)", what, err, ref.Dump(a), ref.Dump(b)), nil)
			return nil
		}
		return v
	}
	eq := get(ref.CallF(ref.FInfix, "==", la, lb))
	eqRev := get(ref.CallF(ref.FInfix, "==", ref.List(B), ref.List(A)))
	ne := get(ref.CallF(ref.FInfix, "!=", la.Clone(), lb.Clone()))
	un := get(ref.Call("len", ref.Call("union", la.Clone(), lb.Clone())))
	in := get(ref.Call("len", ref.Call("intersect", la.Clone(), lb.Clone())))
	df := get(ref.Call("len", ref.Call("diff", la.Clone(), lb.Clone())))
	refl := get(ref.CallF(ref.FInfix, "==", la.Clone(), la.Clone()))
	sa := get(ref.Call("string", A))
	sb := get(ref.Call("string", B))
	if eq == nil || eqRev == nil || ne == nil || un == nil || in == nil || df == nil || refl == nil || sa == nil || sb == nil {
		return
	}
	strA, strB := bridge.ToVal(a).String(), bridge.ToVal(b).String()
	E := eq.B
	desc := fmt.Sprintf("%s: a=%s b=%s", what, ref.Dump(a), ref.Dump(b))
	if eqRev.B != E {
		c.Violation("eq-symmetric", fmt.Sprintf("[a]==[b] is %v but [b]==[a] is %v; %s", E, eqRev.B, desc), nil)
	}
	if ne.B == E {
		c.Violation("eq-vs-ne", fmt.Sprintf("[a]==[b] and [a]!=[b] are both %v; %s", E, desc), nil)
	}
	if !refl.B {
		c.Violation("eq-reflexive", fmt.Sprintf("[a]==[a] is false; %s", desc), nil)
	}
	if !precondition {
		return
	}
	if (strA == strB) != E {
		c.Violation("eq-vs-render", fmt.Sprintf("[a]==[b] is %v but the renderings are %q and %q; %s", E, strA, strB, desc), nil)
	}
	wantU, wantI, wantD := 2.0, 0.0, 1.0
	if E {
		wantU, wantI, wantD = 1, 1, 0
	}
	if un.N != wantU || in.N != wantI || df.N != wantD {
		c.Violation("eq-vs-set-membership", fmt.Sprintf("[a]==[b] is %v but len(union)=%v len(intersect)=%v len(diff)=%v; %s", E, un.N, in.N, df.N, desc), nil)
	}
	if a.T.IsPrim() {
		is := get(ref.Call("isset", ref.Map([]*ref.E{A.Clone()}, []*ref.E{ref.Num("0", 0)}), B.Clone()))
		ml := get(ref.Call("len", ref.Map([]*ref.E{A.Clone(), B.Clone()}, []*ref.E{ref.Num("0", 0), ref.Num("1", 1)})))
		if is != nil && ml != nil {
			wantL := 2.0
			if E {
				wantL = 1
			}
			if is.B != E || ml.N != wantL {
				c.Violation("eq-vs-map-key", fmt.Sprintf("a==b is %v but isset([a:0], b)=%v and len([a:0, b:1])=%v; %s", E, is.B, ml.N, desc), nil)
			}
		}
	}
	// the same pair written as literals
	if la, lb := litOf(a), litOf(b); la != nil && lb != nil {
		c.Count("literal_pairs_checked", 1)
		empty := bridge.NewEnv()
		lget := func(e *ref.E) *ref.V {
			v, err := evalOn(c, empty, e)
			if err != "" {
				c.Violation("sameness-eval", fmt.Sprintf("%s (as literals): %s", what, err), nil)
				return nil
			}
			return v
		}
		leq := lget(ref.CallF(ref.FInfix, "==", ref.List(la), ref.List(lb)))
		lun := lget(ref.Call("len", ref.Call("union", ref.List(la.Clone()), ref.List(lb.Clone()))))
		lsa := lget(ref.Call("string", ref.List(la.Clone())))
		lsb := lget(ref.Call("string", ref.List(lb.Clone())))
		if leq != nil && lun != nil && lsa != nil && lsb != nil {
			if leq.B != E {
				c.Violation("literal-vs-host", fmt.Sprintf("[a]==[b] is %v on host data but %v when the same values are written as literals; %s", E, leq.B, desc), nil)
			}
			if (lun.N == 1) != leq.B {
				c.Violation("eq-vs-set-membership", fmt.Sprintf("as literals: [a]==[b] is %v but len(union([a],[b]))=%v; %s", leq.B, lun.N, desc), nil)
			}
			if a.T.IsPrim() {
				lis := lget(ref.Call("isset", ref.Map([]*ref.E{la.Clone()}, []*ref.E{ref.Num("0", 0)}), lb.Clone()))
				if lis != nil && lis.B != leq.B {
					c.Violation("eq-vs-map-key", fmt.Sprintf("as literals: a==b is %v but isset([a:0], b)=%v; %s", leq.B, lis.B, desc), nil)
				}
			}
			if lsa.S != ref.Stringify(ref.VList(a.T, a)) || lsb.S != ref.Stringify(ref.VList(b.T, b)) {
				c.Violation("string-vs-reference", fmt.Sprintf("as literals: string([a])=%q string([b])=%q, reference %q / %q; %s", lsa.S, lsb.S, ref.Stringify(ref.VList(a.T, a)), ref.Stringify(ref.VList(b.T, b)), desc), nil)
			}
		}
	}
	if want := ref.ValEq(a, b); want != E {
		c.Violation("eq-vs-reference", fmt.Sprintf("[a]==[b] is %v, the documented equality says %v; %s", E, want, desc), nil)
	}
	// the two renderers agree with the reference renderers
	if strA != ref.Show(a) || strB != ref.Show(b) {
		c.Violation("render-vs-reference", fmt.Sprintf("rendering %q / %q, reference %q / %q; %s", strA, strB, ref.Show(a), ref.Show(b), desc), nil)
	}
	if sa.S != ref.Stringify(a) || sb.S != ref.Stringify(b) {
		c.Violation("string-vs-reference", fmt.Sprintf("string(a)=%q string(b)=%q, reference %q / %q; %s", sa.S, sb.S, ref.Stringify(a), ref.Stringify(b), desc), nil)
	}
}

func runC18(c *run.Ctx) {
	n := c.Pick(9000, 600000)
	for i := 0; i < n; i++ {
		if !c.Mine(i) {
			continue
		}
		r := c.Rng("pairs", i)
		g := &ref.Gen{R: r}
		c.Case(fmt.Sprintf("pair/%d", i), func() {
			t := g.Type(1 + r.Intn(2))
			if r.Intn(4) == 0 {
				t = []*ref.Ty{ref.TNum, ref.TStr, ref.TTime, ref.TBool, ref.TList(ref.TNum), ref.TMap(ref.TNum, ref.TNum),
					ref.TObj(ref.F("c", ref.TNum), ref.F("a", ref.TStr), ref.F("b", ref.TList(ref.TNum))), ref.TList(ref.TMaybe(ref.TNum))}[r.Intn(8)]
			}
			a := c18Gen(g, t, 2)
			var b *ref.V
			kind := ""
			switch r.Intn(5) {
			case 0:
				b, kind = a, "identical"
			case 1, 2:
				b, kind = relayout(g, a), "same content, other field / insertion order"
			default:
				b, kind = perturb(g, a), "one leaf changed by more than the tolerance"
				if b == nil {
					b, kind = relayout(g, a), "same content, other field / insertion order"
				} else if r.Intn(2) == 0 {
					b = relayout(g, b)
				}
			}
			c.Input(kind + ": " + ref.Dump(a) + " vs " + ref.Dump(b))
			c.Distinct(ref.Dump(a) + "|" + ref.Dump(b) + "|" + b.T.Decl())
			checkSameness(c, a, b, kind, true)
			if i%2003 == 0 {
				c.Sample(map[string]string{"kind": kind, "a": ref.Show(a), "b": ref.Show(b), "type_a": a.T.Decl(), "type_b": b.T.Decl()})
			}
		})
	}
	// all pairs of the number pool and of the string pool (primitives: also map keys)
	k := 0
	for _, x := range c18Nums {
		for _, y := range c18Nums {
			k++
			if !c.Mine(k) {
				continue
			}
			x, y := x, y
			c.Case(fmt.Sprintf("num/%v/%v", x, y), func() {
				checkSameness(c, ref.VNum(x), ref.VNum(y), "numbers", true)
				c.Distinct(fmt.Sprintf("n%v|%v", x, y))
			})
		}
	}
	for _, x := range c18Strs {
		for _, y := range c18Strs {
			k++
			if !c.Mine(k) {
				continue
			}
			x, y := x, y
			c.Case(fmt.Sprintf("str/%q/%q", x, y), func() {
				checkSameness(c, ref.VStr(x), ref.VStr(y), "strings", true)
				c.Distinct(fmt.Sprintf("s%q|%q", x, y))
			})
		}
	}
	// shared sub-values: [xs, xs] renders like [copy, copy]
	if c.Batch == 0 {
		c.Case("shared-subvalue", func() {
			xs := ref.VList(ref.TNum, ref.VNum(1), ref.VNum(2))
			a := &ref.V{T: ref.TList(xs.T), L: []*ref.V{xs, xs}}
			b := &ref.V{T: ref.TList(xs.T), L: []*ref.V{ref.VList(ref.TNum, ref.VNum(1), ref.VNum(2)), ref.VList(ref.TNum, ref.VNum(1), ref.VNum(2))}}
			checkSameness(c, a, b, "shared sub-value", true)
		})
		// recorded findings, exercised so that they are reported every run
		c.Case("known/nan", func() {
			checkSameness(c, ref.VNum(math.NaN()), ref.VNum(math.NaN()), "NaN", true)
		})
		c.Case("known/time-location", func() {
			t0 := time.Unix(1655296245, 0)
			checkSameness(c, ref.VTime(t0.In(time.UTC)), ref.VTime(t0.In(time.FixedZone("X", 3600))), "time-location", true)
		})
	}
}

func init() {
	run.Register(&run.Spec{
		ID: "C18", Run: runC18, Level: "exploration",
		Rule: "pairs (a,b) of values of equal type (random types to depth 2: numbers across 2^53 / 2^62 / 2^63 / 2^64 / 1e19 / 1e20 / 1e300 / ±Inf whose pairwise differences are 0 or far above 1e-9, strings needing escapes or looking like renderings, times incl. sub-second, lists, maps, objects, optionals): identical, re-laid-out (permuted object fields, reversed map insertion order, at every depth) or with one leaf changed; all pairs of the number pool and of the string pool; a physically shared sub-value; bound as host data (raw environments with the value's own layout) and, whenever the values have a literal form, written as literals; " +
			"monitor: [a]==[b] vs [b]==[a] vs != vs [a]==[a]; == <=> equal Val.String() <=> len(union)=1, len(intersect)=1, len(diff)=0 <=> (primitives) isset([a:0],b) and len([a:0,b:1])=1; both renderers equal the reference renderers. distinct = distinct (a,b,layout)",
		Assume:    []string{"precondition of the property is built into the pools (no two numbers closer than the tolerance unless identical)", "NaN and equal instants in different time.Location are recorded known findings"},
		MinEvents: 3000, EventKey: "pairs_checked",
	})
}
