package props

import (
	"fmt"
	"math"
	"math/rand"
	"strconv"
	"strings"
	"time"
	"unicode/utf8"

	yae "github.com/goghcrow/yae"
	"github.com/goghcrow/yae/types"
	"github.com/goghcrow/yae/val"

	"verif/harness/bridge"
	"verif/harness/ref"
	"verif/harness/run"
)

// numbers for the sameness property: any two of them are identical or differ
// by (much) more than the tolerance
var c18Nums = []float64{0, math.Copysign(0, -1), 1, -1, 2, 0.5, -0.5, 1e-6, 3.75, 255, 1e6, 9007199254740992, 9007199254740994, 4611686018427387904,
	9223372036854774784, 9223372036854775808, -9223372036854775808, 18446744073709551616, 1e19, 10000000000000002048, 1e20, 1e300, -1e300, math.Inf(1), math.Inf(-1)}

var c18Strs = []string{"", "a", "A", "a ", "q\"uote", "q\\\"uote", "back\\slash", "line\nbreak", "line\\nbreak", "晓", "é", "é", "1", "true", "[1, 2]", "a, b", "{a: 1}", "\x00", "\xff"}

func c18Gen(g *ref.Gen, t *ref.Ty, d int) *ref.V {
	switch t.K {
	case ref.KNum:
		return ref.VNum(c18Nums[g.R.Intn(len(c18Nums))])
	case ref.KStr:
		return ref.VStr(c18Strs[g.R.Intn(len(c18Strs))])
	case ref.KTime:
		return ref.VTime(time.Unix([]int64{0, 1, 86400, 1655296245, -1}[g.R.Intn(5)], []int64{0, 0, 1, 500000000}[g.R.Intn(4)]))
	case ref.KBool:
		return ref.VBool(g.R.Intn(2) == 0)
	case ref.KList:
		out := &ref.V{T: t}
		for i := g.R.Intn(4); i > 0; i-- {
			out.L = append(out.L, c18Gen(g, t.El, d-1))
		}
		return out
	case ref.KMap:
		out := &ref.V{T: t}
		for i := g.R.Intn(4); i > 0; i-- {
			out.MapPut(c18Gen(g, t.Key, 0), c18Gen(g, t.Val, d-1))
		}
		return out
	case ref.KObj:
		out := &ref.V{T: t}
		for _, f := range t.Fs {
			out.O = append(out.O, c18Gen(g, f.T, d-1))
		}
		return out
	case ref.KMaybe:
		if g.R.Intn(3) == 0 {
			return ref.VNothing(t.El)
		}
		return ref.VJust(t.El, c18Gen(g, t.El, d-1))
	}
	panic("c18Gen: " + t.Canon())
}

// relayout copies v with permuted object field order and reversed map
// insertion order at every level (same content).
func relayout(g *ref.Gen, v *ref.V) *ref.V {
	switch v.T.K {
	case ref.KList:
		out := &ref.V{T: ref.TList(g.Permute(v.T.El))}
		for _, x := range v.L {
			out.L = append(out.L, relayout(g, x))
		}
		return out
	case ref.KMap:
		out := &ref.V{T: ref.TMap(v.T.Key, g.Permute(v.T.Val))}
		for i := len(v.M) - 1; i >= 0; i-- {
			out.M = append(out.M, ref.KV{K: v.M[i].K, V: relayout(g, v.M[i].V)})
		}
		return out
	case ref.KObj:
		idx := g.R.Perm(len(v.T.Fs))
		out := &ref.V{T: &ref.Ty{K: ref.KObj}}
		for _, i := range idx {
			x := relayout(g, v.O[i])
			out.T.Fs = append(out.T.Fs, ref.Fld{Name: v.T.Fs[i].Name, T: x.T})
			out.O = append(out.O, x)
		}
		return out
	case ref.KMaybe:
		if v.P == nil {
			return ref.VNothing(g.Permute(v.T.El))
		}
		p := relayout(g, v.P)
		return ref.VJust(p.T, p)
	}
	return v
}

// perturb changes one leaf by more than the tolerance (or the shape of one
// container); returns nil if nothing can be changed.
func perturb(g *ref.Gen, v *ref.V) *ref.V {
	c := *v
	switch v.T.K {
	case ref.KNum:
		for {
			n := c18Nums[g.R.Intn(len(c18Nums))]
			if n != v.N {
				c.N = n
				return &c
			}
		}
	case ref.KStr:
		for {
			s := c18Strs[g.R.Intn(len(c18Strs))]
			if s != v.S {
				c.S = s
				return &c
			}
		}
	case ref.KBool:
		c.B = !v.B
		return &c
	case ref.KTime:
		c.Tm = v.Tm.Add([]time.Duration{time.Nanosecond, time.Second, -time.Hour}[g.R.Intn(3)])
		return &c
	case ref.KList:
		if len(v.L) == 0 || g.R.Intn(4) == 0 {
			c.L = append(append([]*ref.V(nil), v.L...), c18Gen(g, v.T.El, 1))
			return &c
		}
		if len(v.L) >= 2 && g.R.Intn(4) == 0 {
			// a different order is a different list (unless the two are equal)
			c.L = append([]*ref.V(nil), v.L...)
			c.L[0], c.L[1] = c.L[1], c.L[0]
			return &c
		}
		i := g.R.Intn(len(v.L))
		p := perturb(g, v.L[i])
		if p == nil {
			return nil
		}
		c.L = append([]*ref.V(nil), v.L...)
		c.L[i] = p
		return &c
	case ref.KMap:
		if len(v.M) == 0 || g.R.Intn(3) == 0 {
			c.M = append([]ref.KV(nil), v.M...)
			(&c).MapPut(c18Gen(g, v.T.Key, 0), c18Gen(g, v.T.Val, 1))
			return &c
		}
		i := g.R.Intn(len(v.M))
		p := perturb(g, v.M[i].V)
		if p == nil {
			return nil
		}
		c.M = append([]ref.KV(nil), v.M...)
		c.M[i] = ref.KV{K: v.M[i].K, V: p}
		return &c
	case ref.KObj:
		if len(v.O) == 0 {
			return nil
		}
		i := g.R.Intn(len(v.O))
		p := perturb(g, v.O[i])
		if p == nil {
			return nil
		}
		c.O = append([]*ref.V(nil), v.O...)
		c.O[i] = p
		return &c
	case ref.KMaybe:
		if v.P == nil {
			c.P = c18Gen(g, v.T.El, 1)
			return &c
		}
		if g.R.Intn(3) == 0 {
			c.P = nil
			return &c
		}
		p := perturb(g, v.P)
		if p == nil {
			return nil
		}
		c.P = p
		return &c
	}
	return nil
}

func hasNaN(v *ref.V) bool {
	switch v.T.K {
	case ref.KNum:
		return math.IsNaN(v.N)
	case ref.KList:
		for _, x := range v.L {
			if hasNaN(x) {
				return true
			}
		}
	case ref.KMap:
		for _, kv := range v.M {
			if hasNaN(kv.K) || hasNaN(kv.V) {
				return true
			}
		}
	case ref.KObj:
		for _, x := range v.O {
			if hasNaN(x) {
				return true
			}
		}
	case ref.KMaybe:
		return v.P != nil && hasNaN(v.P)
	}
	return false
}

// litOf writes a value as a literal expression; nil when it has no literal
// form (non-finite numbers, sub-second times, invalid UTF-8, empty containers
// whose literal would have the bottom element type, optionals).
func litOf(v *ref.V) *ref.E {
	switch v.T.K {
	case ref.KNum:
		if math.IsNaN(v.N) || math.IsInf(v.N, 0) {
			return nil
		}
		a := math.Abs(v.N)
		e := ref.Num(ref.FmtNum(a), a)
		if math.Signbit(v.N) {
			return ref.CallF(ref.FPrefix, "-", e)
		}
		return e
	case ref.KStr:
		if !utf8.ValidString(v.S) || strings.ContainsRune(v.S, 0xFFFD) {
			return nil
		}
		return ref.Str(v.S)
	case ref.KBool:
		return ref.Bool(v.B)
	case ref.KTime:
		if v.Tm.Nanosecond() != 0 {
			return nil
		}
		return ref.Time("@"+strconv.FormatInt(v.Tm.Unix(), 10), v.Tm.Unix())
	case ref.KList:
		if len(v.L) == 0 {
			return nil
		}
		xs := make([]*ref.E, len(v.L))
		for i, x := range v.L {
			if xs[i] = litOf(x); xs[i] == nil {
				return nil
			}
		}
		return ref.List(xs...)
	case ref.KMap:
		if len(v.M) == 0 {
			return nil
		}
		ks, vs := make([]*ref.E, len(v.M)), make([]*ref.E, len(v.M))
		for i, kv := range v.M {
			ks[i], vs[i] = litOf(kv.K), litOf(kv.V)
			if ks[i] == nil || vs[i] == nil {
				return nil
			}
		}
		return ref.Map(ks, vs)
	case ref.KObj:
		fs, vs := make([]string, len(v.O)), make([]*ref.E, len(v.O))
		for i, f := range v.T.Fs {
			if !isPlainIdent(f.Name) && !isIdentLike(f.Name) {
				return nil
			}
			fs[i] = f.Name
			if vs[i] = litOf(v.O[i]); vs[i] == nil {
				return nil
			}
		}
		return ref.Obj(fs, vs)
	}
	return nil
}

func isIdentLike(s string) bool { return ref.IsIdentLikeOp(s) && !ref.Reserved(s) }

type c18Obs struct {
	eq, eqRev                    bool
	union, inter, diff           float64
	strA, strB, stringA, stringB string
	isset                        *bool
	maplen                       float64
	ok                           bool
}

func evalOn(c *run.Ctx, env *bridge.Env, e *ref.E) (*ref.V, string) {
	pc := &ProgCase{Src: ref.Render(e), E: e, Env: env, Back: []bridge.Backend{bridge.VM}}
	o := RunProg(pc)
	b := o.Back[bridge.VM]
	if b.CompErr != nil {
		return nil, "compile: " + b.CompErr.Error() + " :: " + pc.Src
	}
	if b.Res.Class != bridge.OValue || b.Ill != nil {
		return nil, b.describe() + " :: " + pc.Src
	}
	return b.RV, ""
}

var c18PadSeq int
var c18PadSizes = []int{3, 31, 62, 63, 64, 65, 127, 200}

// c18Filler: the i-th of a family of values of type t that differ from each
// other and from everything the pools produce by far more than the tolerance.
func c18Filler(t *ref.Ty, i int) *ref.V {
	switch t.K {
	case ref.KNum:
		return ref.VNum(700000.25 + float64(i)*3)
	case ref.KStr:
		return ref.VStr(fmt.Sprintf("pad-%d", i))
	case ref.KTime:
		return ref.VTime(time.Unix(1000000007+int64(i)*86400, 0))
	case ref.KList:
		el := c18Filler(t.El, i)
		if el == nil {
			return nil
		}
		return ref.VList(t.El, el)
	case ref.KMap:
		k, v := c18Filler(t.Key, i), c18Filler(t.Val, i)
		if k == nil || v == nil {
			return nil
		}
		return ref.VMap(t.Key, t.Val, ref.KV{K: k, V: v})
	case ref.KObj:
		vs := make([]*ref.V, len(t.Fs))
		some := false
		for j, f := range t.Fs {
			vs[j] = c18Filler(f.T, i)
			if vs[j] == nil { // e.g. bool: any value will do as long as another field differs
				vs[j] = c18Zero(f.T)
				if vs[j] == nil {
					return nil
				}
			} else {
				some = true
			}
		}
		if !some {
			return nil
		}
		return ref.VObj(t, vs...)
	case ref.KMaybe:
		p := c18Filler(t.El, i)
		if p == nil {
			return nil
		}
		return &ref.V{T: t, P: p}
	}
	return nil
}

func c18Zero(t *ref.Ty) *ref.V {
	switch t.K {
	case ref.KBool:
		return ref.VBool(false)
	case ref.KMaybe:
		return &ref.V{T: t}
	case ref.KList:
		return ref.VList(t.El)
	case ref.KMap:
		return ref.VMap(t.Key, t.Val)
	}
	return nil
}

// checkSameness evaluates the four notions of sameness on (a, b) bound as
// host data, and as literals when expressible.
func checkSameness(c *run.Ctx, a, b *ref.V, what string, precondition bool) {
	c.Count("pairs_checked", 1)
	env := bridge.NewEnv()
	env.Put("a", a)
	env.PutTyped("b", a.T, b)
	A, B := ref.Ident("a"), ref.Ident("b")
	la, lb := ref.List(A), ref.List(B)
	get := func(e *ref.E) *ref.V {
		v, err := evalOn(c, env, e)
		if err != "" {
			c.Violation("sameness-eval", fmt.Sprintf("%s: %s (a=%s b=%s)", what, err, ref.Dump(a), ref.Dump(b)), nil)
			return nil
		}
		return v
	}
	eq := get(ref.CallF(ref.FInfix, "==", la, lb))
	eqRev := get(ref.CallF(ref.FInfix, "==", ref.List(B), ref.List(A)))
	ne := get(ref.CallF(ref.FInfix, "!=", la.Clone(), lb.Clone()))
	un := get(ref.Call("len", ref.Call("union", la.Clone(), lb.Clone())))
	in := get(ref.Call("len", ref.Call("intersect", la.Clone(), lb.Clone())))
	df := get(ref.Call("len", ref.Call("diff", la.Clone(), lb.Clone())))
	refl := get(ref.CallF(ref.FInfix, "==", la.Clone(), la.Clone()))
	sa := get(ref.Call("string", A))
	sb := get(ref.Call("string", B))
	if eq == nil || eqRev == nil || ne == nil || un == nil || in == nil || df == nil || refl == nil || sa == nil || sb == nil {
		return
	}
	strA, strB := bridge.ToVal(a).String(), bridge.ToVal(b).String()
	E := eq.B
	desc := fmt.Sprintf("%s: a=%s b=%s", what, ref.Dump(a), ref.Dump(b))
	if eqRev.B != E {
		c.Violation("eq-symmetric", fmt.Sprintf("[a]==[b] is %v but [b]==[a] is %v; %s", E, eqRev.B, desc), nil)
	}
	if ne.B == E {
		c.Violation("eq-vs-ne", fmt.Sprintf("[a]==[b] and [a]!=[b] are both %v; %s", E, desc), nil)
	}
	if !refl.B {
		c.Violation("eq-reflexive", fmt.Sprintf("[a]==[a] is false; %s", desc), nil)
	}
	if !precondition {
		return
	}
	if (strA == strB) != E {
		c.Violation("eq-vs-render", fmt.Sprintf("[a]==[b] is %v but the renderings are %q and %q; %s", E, strA, strB, desc), nil)
	}
	wantU, wantI, wantD := 2.0, 0.0, 1.0
	if E {
		wantU, wantI, wantD = 1, 1, 0
	}
	if un.N != wantU || in.N != wantI || df.N != wantD {
		c.Violation("eq-vs-set-membership", fmt.Sprintf("[a]==[b] is %v but len(union)=%v len(intersect)=%v len(diff)=%v; %s", E, un.N, in.N, df.N, desc), nil)
	}
	// the same question among many other elements (set functions over long lists)
	c18PadSeq++
	if size := c18PadSizes[c18PadSeq%len(c18PadSizes)]; c18PadSeq%3 == 0 || a.T.IsPrim() {
		var pad []*ref.V
		for i := 0; i < size; i++ {
			f := c18Filler(a.T, i)
			if f == nil {
				pad = nil
				break
			}
			pad = append(pad, f)
		}
		if pad != nil {
			env.Put("pa", ref.VList(a.T, append(pad, a)...))
			PA := func() *ref.E { return ref.Ident("pa") }
			un2 := get(ref.Call("len", ref.Call("union", PA(), lb.Clone())))
			in2 := get(ref.Call("len", ref.Call("intersect", PA(), lb.Clone())))
			df2 := get(ref.Call("len", ref.Call("diff", PA(), lb.Clone())))
			un3 := get(ref.Call("len", ref.Call("union", lb.Clone(), PA())))
			if un2 != nil && in2 != nil && df2 != nil && un3 != nil {
				c.Count("padded_set_checks", 1)
				n := float64(size)
				wU, wI, wD := n+2, 0.0, n+1
				if E {
					wU, wI, wD = n+1, 1, n
				}
				if un2.N != wU || in2.N != wI || df2.N != wD || un3.N != wU {
					c.Violation("eq-vs-set-membership", fmt.Sprintf("[a]==[b] is %v but with a at the end of a list of %d other distinct elements: len(union(pa,[b]))=%v len(intersect)=%v len(diff)=%v len(union([b],pa))=%v (expected %v %v %v %v); %s", E, size, un2.N, in2.N, df2.N, un3.N, wU, wI, wD, wU, desc), nil)
				}
			}
		}
	}
	if a.T.IsPrim() {
		is := get(ref.Call("isset", ref.Map([]*ref.E{A.Clone()}, []*ref.E{ref.Num("0", 0)}), B.Clone()))
		ml := get(ref.Call("len", ref.Map([]*ref.E{A.Clone(), B.Clone()}, []*ref.E{ref.Num("0", 0), ref.Num("1", 1)})))
		if is != nil && ml != nil {
			wantL := 2.0
			if E {
				wantL = 1
			}
			if is.B != E || ml.N != wantL {
				c.Violation("eq-vs-map-key", fmt.Sprintf("a==b is %v but isset([a:0], b)=%v and len([a:0, b:1])=%v; %s", E, is.B, ml.N, desc), nil)
			}
		}
	}
	// the same pair written as literals
	if la, lb := litOf(a), litOf(b); la != nil && lb != nil {
		c.Count("literal_pairs_checked", 1)
		empty := bridge.NewEnv()
		lget := func(e *ref.E) *ref.V {
			v, err := evalOn(c, empty, e)
			if err != "" {
				c.Violation("sameness-eval", fmt.Sprintf("%s (as literals): %s", what, err), nil)
				return nil
			}
			return v
		}
		leq := lget(ref.CallF(ref.FInfix, "==", ref.List(la), ref.List(lb)))
		lun := lget(ref.Call("len", ref.Call("union", ref.List(la.Clone()), ref.List(lb.Clone()))))
		lsa := lget(ref.Call("string", ref.List(la.Clone())))
		lsb := lget(ref.Call("string", ref.List(lb.Clone())))
		if leq != nil && lun != nil && lsa != nil && lsb != nil {
			if leq.B != E {
				c.Violation("literal-vs-host", fmt.Sprintf("[a]==[b] is %v on host data but %v when the same values are written as literals; %s", E, leq.B, desc), nil)
			}
			if (lun.N == 1) != leq.B {
				c.Violation("eq-vs-set-membership", fmt.Sprintf("as literals: [a]==[b] is %v but len(union([a],[b]))=%v; %s", leq.B, lun.N, desc), nil)
			}
			if a.T.IsPrim() {
				lis := lget(ref.Call("isset", ref.Map([]*ref.E{la.Clone()}, []*ref.E{ref.Num("0", 0)}), lb.Clone()))
				if lis != nil && lis.B != leq.B {
					c.Violation("eq-vs-map-key", fmt.Sprintf("as literals: a==b is %v but isset([a:0], b)=%v; %s", leq.B, lis.B, desc), nil)
				}
			}
			if lsa.S != ref.Stringify(ref.VList(a.T, a)) || lsb.S != ref.Stringify(ref.VList(b.T, b)) {
				c.Violation("string-vs-reference", fmt.Sprintf("as literals: string([a])=%q string([b])=%q, reference %q / %q; %s", lsa.S, lsb.S, ref.Stringify(ref.VList(a.T, a)), ref.Stringify(ref.VList(b.T, b)), desc), nil)
			}
		}
	}
	if want := ref.ValEq(a, b); want != E {
		c.Violation("eq-vs-reference", fmt.Sprintf("[a]==[b] is %v, the documented equality says %v; %s", E, want, desc), nil)
	}
	// the two renderers agree with the reference renderers
	if strA != ref.Show(a) || strB != ref.Show(b) {
		c.Violation("render-vs-reference", fmt.Sprintf("rendering %q / %q, reference %q / %q; %s", strA, strB, ref.Show(a), ref.Show(b), desc), nil)
	}
	if sa.S != ref.Stringify(a) || sb.S != ref.Stringify(b) {
		c.Violation("string-vs-reference", fmt.Sprintf("string(a)=%q string(b)=%q, reference %q / %q; %s", sa.S, sb.S, ref.Stringify(a), ref.Stringify(b), desc), nil)
	}
}

func runC18(c *run.Ctx) {
	n := c.Pick(9000, 600000)
	for i := 0; i < n; i++ {
		if !c.Mine(i) {
			continue
		}
		r := c.Rng("pairs", i)
		g := &ref.Gen{R: r}
		c.Case(fmt.Sprintf("pair/%d", i), func() {
			t := g.Type(1 + r.Intn(2))
			if r.Intn(4) == 0 {
				t = []*ref.Ty{ref.TNum, ref.TStr, ref.TTime, ref.TBool, ref.TList(ref.TNum), ref.TMap(ref.TNum, ref.TNum),
					ref.TObj(ref.F("c", ref.TNum), ref.F("a", ref.TStr), ref.F("b", ref.TList(ref.TNum))), ref.TList(ref.TMaybe(ref.TNum))}[r.Intn(8)]
			}
			a := c18Gen(g, t, 2)
			var b *ref.V
			kind := ""
			switch r.Intn(5) {
			case 0:
				b, kind = a, "identical"
			case 1, 2:
				b, kind = relayout(g, a), "same content, other field / insertion order"
			default:
				b, kind = perturb(g, a), "one leaf changed by more than the tolerance"
				if b == nil {
					b, kind = relayout(g, a), "same content, other field / insertion order"
				} else if r.Intn(2) == 0 {
					b = relayout(g, b)
				}
			}
			c.Input(kind + ": " + ref.Dump(a) + " vs " + ref.Dump(b))
			c.Distinct(ref.Dump(a) + "|" + ref.Dump(b) + "|" + b.T.Decl())
			checkSameness(c, a, b, kind, true)
			if i%2003 == 0 {
				c.Sample(map[string]string{"kind": kind, "a": ref.Show(a), "b": ref.Show(b), "type_a": a.T.Decl(), "type_b": b.T.Decl()})
			}
		})
	}
	// all pairs of the number pool and of the string pool (primitives: also map keys)
	k := 0
	for _, x := range c18Nums {
		for _, y := range c18Nums {
			k++
			if !c.Mine(k) {
				continue
			}
			x, y := x, y
			c.Case(fmt.Sprintf("num/%v/%v", x, y), func() {
				checkSameness(c, ref.VNum(x), ref.VNum(y), "numbers", true)
				c.Distinct(fmt.Sprintf("n%v|%v", x, y))
			})
		}
	}
	for _, x := range c18Strs {
		for _, y := range c18Strs {
			k++
			if !c.Mine(k) {
				continue
			}
			x, y := x, y
			c.Case(fmt.Sprintf("str/%q/%q", x, y), func() {
				checkSameness(c, ref.VStr(x), ref.VStr(y), "strings", true)
				c.Distinct(fmt.Sprintf("s%q|%q", x, y))
			})
		}
	}
	// values that agree for d levels of nesting and differ (or not) at the leaf
	for di, d := range []int{4, 8, 15, 16, 17, 24, 31, 32, 33, 34, 40, 47, 48, 49, 50, 63, 64, 65, 80} {
		if !c.Mine(di) {
			continue
		}
		d := d
		c.Case(fmt.Sprintf("deep/%d", d), func() {
			for style := 0; style < 3; style++ {
				mk := func(leaf *ref.V, flip bool) *ref.V {
					v := leaf
					for k := 0; k < d; k++ {
						switch (k * (style + 1)) % 3 {
						case 0:
							v = ref.VList(v.T, v)
						case 1:
							v = ref.VMap(ref.TStr, v.T, ref.KV{K: ref.VStr("k"), V: v})
						default:
							t := ref.TObj(ref.F("f", v.T), ref.F("n", ref.TNum))
							if flip { // the same object laid out the other way round
								v = ref.VObj(ref.TObj(ref.F("n", ref.TNum), ref.F("f", v.T)), ref.VNum(1), v)
							} else {
								v = ref.VObj(t, v, ref.VNum(1))
							}
						}
					}
					return v
				}
				a, same, relaid, other := mk(ref.VNum(1), false), mk(ref.VNum(1), false), mk(ref.VNum(1), true), mk(ref.VNum(2), false)
				checkSameness(c, a, same, fmt.Sprintf("equal values %d levels deep", d), true)
				checkSameness(c, a, relaid, fmt.Sprintf("equal values %d levels deep, objects laid out differently", d), true)
				checkSameness(c, a, other, fmt.Sprintf("values %d levels deep that differ at the leaf", d), true)
			}
			c.Distinct(fmt.Sprintf("deep/%d", d))
		})
	}
	// one run-time node used several times on one side of a comparison
	fixedCases(c, sharedOperandCases(), func(c *run.Ctx, o *ProgObs) {
		c.Count("pairs_checked", 1)
		oracleC04(c, o)
		compareBackends(c, o)
	})
	// values updated in place through the val API after they were rendered once
	for i := 0; i < c.Pick(300, 20000); i++ {
		if !c.Mine(i) {
			continue
		}
		c.Case(fmt.Sprintf("update-after-render/%d", i), func() { updateAfterRender(c, c.Rng("upd", i)) })
	}
	// shared sub-values: [xs, xs] renders like [copy, copy]
	if c.Batch == 0 {
		c.Case("shared-subvalue", func() {
			xs := ref.VList(ref.TNum, ref.VNum(1), ref.VNum(2))
			a := &ref.V{T: ref.TList(xs.T), L: []*ref.V{xs, xs}}
			b := &ref.V{T: ref.TList(xs.T), L: []*ref.V{ref.VList(ref.TNum, ref.VNum(1), ref.VNum(2)), ref.VList(ref.TNum, ref.VNum(1), ref.VNum(2))}}
			checkSameness(c, a, b, "shared sub-value", true)
			// one node twice on one side, an equal copy and a DIFFERENT value on the other
			for _, inner := range []*ref.Ty{ref.TList(ref.TNum), ref.TMap(ref.TStr, ref.TNum), ref.TObj(ref.F("p", ref.TNum), ref.F("q", ref.TStr))} {
				mk := func(k float64) *ref.V {
					switch inner.K {
					case ref.KList:
						return ref.VList(ref.TNum, ref.VNum(k), ref.VNum(2))
					case ref.KMap:
						return ref.VMap(ref.TStr, ref.TNum, ref.KV{K: ref.VStr("k"), V: ref.VNum(k)})
					}
					return ref.VObj(inner, ref.VNum(k), ref.VStr("s"))
				}
				m := mk(1)
				shared := []*ref.V{
					{T: ref.TList(inner), L: []*ref.V{m, m}},
					{T: ref.TList(inner), L: []*ref.V{m, m, m}},
					ref.VObj(ref.TObj(ref.F("u", inner), ref.F("v", inner)), m, m),
					ref.VMap(ref.TStr, inner, ref.KV{K: ref.VStr("a"), V: m}, ref.KV{K: ref.VStr("b"), V: m}),
					{T: ref.TList(ref.TList(inner)), L: []*ref.V{{T: ref.TList(inner), L: []*ref.V{m}}, {T: ref.TList(inner), L: []*ref.V{m}}}},
				}
				other := func(sh *ref.V, diffAt int) *ref.V { // a structurally fresh value, equal except (optionally) at one position
					var rec func(v *ref.V, pos *int) *ref.V
					rec = func(v *ref.V, pos *int) *ref.V {
						if v == m {
							k := 1.0
							if *pos == diffAt {
								k = 9
							}
							*pos++
							return mk(k)
						}
						n := &ref.V{T: v.T}
						for _, x := range v.L {
							n.L = append(n.L, rec(x, pos))
						}
						for _, x := range v.O {
							n.O = append(n.O, rec(x, pos))
						}
						for _, kv := range v.M {
							n.M = append(n.M, ref.KV{K: kv.K, V: rec(kv.V, pos)})
						}
						return n
					}
					p := 0
					return rec(sh, &p)
				}
				for _, sh := range shared {
					for diffAt := -1; diffAt < 3; diffAt++ {
						o := other(sh, diffAt)
						checkSameness(c, sh, o, fmt.Sprintf("one node used several times vs fresh nodes (difference at occurrence %d)", diffAt), true)
						checkSameness(c, o, sh, fmt.Sprintf("fresh nodes vs one node used several times (difference at occurrence %d)", diffAt), true)
					}
				}
			}
		})
		// recorded findings, exercised so that they are reported every run
		c.Case("known/nan", func() {
			checkSameness(c, ref.VNum(math.NaN()), ref.VNum(math.NaN()), "NaN", true)
		})
		c.Case("known/time-location", func() {
			t0 := time.Unix(1655296245, 0)
			checkSameness(c, ref.VTime(t0.In(time.UTC)), ref.VTime(t0.In(time.FixedZone("X", 3600))), "time-location", true)
		})
	}
}

// updateAfterRender: a host keeps a value, renders it / uses it in a set
// function, updates a composite nested inside it through the val API and
// uses it again: rendering, == and set membership must all follow the
// current content.
func updateAfterRender(c *run.Ctx, r *rand.Rand) {
	g := &ref.Gen{R: r}
	inner := []*ref.Ty{ref.TList(ref.TNum), ref.TObj(ref.F("p", ref.TNum), ref.F("q", ref.TStr)), ref.TMap(ref.TStr, ref.TNum)}[r.Intn(3)]
	outer := []*ref.Ty{ref.TMap(ref.TStr, inner), ref.TList(inner), ref.TObj(ref.F("f", inner), ref.F("g", ref.TNum)), ref.TMap(ref.TNum, ref.TList(inner)), ref.TList(ref.TMap(ref.TStr, inner))}[r.Intn(5)]
	mkInner := func(k int) *ref.V {
		switch inner.K {
		case ref.KList:
			return ref.VList(ref.TNum, ref.VNum(float64(k)), ref.VNum(2))
		case ref.KObj:
			return ref.VObj(inner, ref.VNum(float64(k)), ref.VStr("s"))
		}
		return ref.VMap(ref.TStr, ref.TNum, ref.KV{K: ref.VStr("k"), V: ref.VNum(float64(k))})
	}
	// build(k): the outer value whose nested composites carry k
	var build func(t *ref.Ty, k int) *ref.V
	build = func(t *ref.Ty, k int) *ref.V {
		if t == inner {
			return mkInner(k)
		}
		switch t.K {
		case ref.KMap:
			if t.Key.K == ref.KNum {
				return ref.VMap(t.Key, t.Val, ref.KV{K: ref.VNum(1), V: build(t.Val, k)}, ref.KV{K: ref.VNum(2), V: build(t.Val, k)})
			}
			return ref.VMap(t.Key, t.Val, ref.KV{K: ref.VStr("x"), V: build(t.Val, k)}, ref.KV{K: ref.VStr("y"), V: build(t.Val, k)})
		case ref.KList:
			return ref.VList(t.El, build(t.El, k), build(t.El, k))
		case ref.KObj:
			return ref.VObj(t, build(t.Fs[0].T, k), ref.VNum(5))
		}
		return g.Value(t, 1)
	}
	before, after := build(outer, 1), build(outer, 9)
	live := bridge.ToVal(before)
	tenv := types.NewEnv()
	tenv.Put("a", bridge.ToType(outer))
	tenv.Put("b", bridge.ToType(outer))
	ex := yae.NewExpr()
	progs := []string{"len(union([a], [b]))", "[a] == [b]", "string(a) == string(b)", "len(intersect([a, a], [b]))"}
	cls := make([]yae.Callable, len(progs))
	for i, p := range progs {
		cl, err := ex.Compile(p, tenv)
		if err != nil {
			c.Violation("sameness-eval", fmt.Sprintf("%s does not compile for %s: %v", p, outer.Decl(), err), nil)
			return
		}
		cls[i] = cl
	}
	use := func(phase string, content *ref.V) bool {
		c.Count("pairs_checked", 1)
		fresh := bridge.ToVal(content)
		venv := val.NewEnv()
		venv.Put("a", live)
		venv.Put("b", fresh)
		if s := live.String(); s != ref.Show(content) {
			c.Violation("render-vs-reference", fmt.Sprintf("%s: the value renders %q, its content is %q", phase, s, ref.Show(content)), nil)
			return false
		}
		want := []string{"1", "true", "true", "1"}
		for i, cl := range cls {
			v, err := cl(venv)
			if err != nil || v.String() != want[i] {
				c.Violation("eq-vs-set-membership", fmt.Sprintf("%s: %s with a = the kept value, b = a fresh value of the same content %s gives %v %v, expected %s", phase, progs[i], ref.Show(content), safeStr(v), err, want[i]), nil)
				return false
			}
		}
		return true
	}
	if !use("before the update", before) {
		return
	}
	// update every nested composite in place: k 1 -> 9
	var upd func(v *val.Val, t *ref.Ty)
	upd = func(v *val.Val, t *ref.Ty) {
		if t == inner {
			switch inner.K {
			case ref.KList:
				v.List().Set(0, val.Num(9))
			case ref.KObj:
				v.Obj().Put("p", val.Num(9))
			default:
				v.Map().Put(val.Str("k"), val.Num(9))
			}
			return
		}
		switch t.K {
		case ref.KMap:
			for _, k := range []*val.Val{val.Num(1), val.Num(2), val.Str("x"), val.Str("y")} {
				if k.Type.Kind == bridge.ToType(t.Key).Kind {
					if x, ok := v.Map().Get(k); ok {
						upd(x, t.Val)
					}
				}
			}
		case ref.KList:
			for _, x := range v.List().V {
				upd(x, t.El)
			}
		case ref.KObj:
			x, _ := v.Obj().Get(t.Fs[0].Name)
			upd(x, t.Fs[0].T)
		}
	}
	upd(live, outer)
	c.Distinct(outer.Decl())
	use("after an in-place update of the nested values", after)
}

func init() {
	run.Register(&run.Spec{
		ID: "C18", Run: runC18, Level: "exploration",
		Rule: "pairs (a,b) of values of equal type (random types to depth 2: numbers across 2^53 / 2^62 / 2^63 / 2^64 / 1e19 / 1e20 / 1e300 / ±Inf whose pairwise differences are 0 or far above 1e-9, strings needing escapes or looking like renderings, times incl. sub-second, lists, maps, objects, optionals): identical, re-laid-out (permuted object fields, reversed map insertion order, at every depth) or with one leaf changed; all pairs of the number pool and of the string pool; a physically shared sub-value; bound as host data (raw environments with the value's own layout) and, whenever the values have a literal form, written as literals; " +
			"monitor: [a]==[b] vs [b]==[a] vs != vs [a]==[a]; == <=> equal Val.String() <=> len(union)=1, len(intersect)=1, len(diff)=0 <=> (primitives) isset([a:0],b) and len([a:0,b:1])=1; values nested 4..80 levels deep that differ only at the leaf or only in object layout; the same membership questions with a appended to 3..200 other distinct elements (sizes around 64 and 128); both renderers equal the reference renderers; values kept by the host, rendered / used in set functions, updated in place below the top level through the val API (ListVal.Set, ObjVal.Put, MapVal.Put) and used again must follow their current content. distinct = distinct (a,b,layout)",
		Assume:    []string{"precondition of the property is built into the pools (no two numbers closer than the tolerance unless identical)", "NaN and equal instants in different time.Location are recorded known findings"},
		MinEvents: 3000, EventKey: "pairs_checked",
	})
}
