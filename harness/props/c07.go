package props

import (
	"fmt"
	"strings"
	"time"

	yae "github.com/goghcrow/yae"
	"github.com/goghcrow/yae/types"
	"github.com/goghcrow/yae/val"

	"verif/harness/bridge"
	"verif/harness/ref"
	"verif/harness/run"
)

// c07Base draws an environment whose values can be expressed as host data.
func c07Base(g *ref.Gen) ([]string, map[string]*ref.V) {
	n, _, v := c07BaseT(g)
	return n, v
}

// c07Values draws new values of the given types.
func c07Values(g *ref.Gen, names []string, types map[string]*ref.Ty) map[string]*ref.V {
	vs := map[string]*ref.V{}
	for _, n := range names {
		vs[n] = cleanForHost(relayoutAs(g.Value(types[n], 2), types[n]))
	}
	return vs
}

func c07BaseT(g *ref.Gen) ([]string, map[string]*ref.Ty, map[string]*ref.V) {
	oAB := ref.TObj(ref.F("a", ref.TNum), ref.F("b", ref.TStr))
	types := map[string]*ref.Ty{
		"n": ref.TNum, "s": ref.TStr, "b": ref.TBool, "t": ref.TTime, "xs": ref.TList(ref.TNum), "m": ref.TMap(ref.TStr, ref.TNum),
		"o":    oAB,
		"os":   ref.TList(oAB),
		"deep": ref.TObj(ref.F("p", ref.TObj(ref.F("q", ref.TList(ref.TObj(ref.F("r", ref.TNum), ref.F("z", ref.TMaybe(ref.TStr))))))), ref.F("c", ref.TBool)),
		"opt":  ref.TObj(ref.F("bonus", ref.TMaybe(ref.TNum)), ref.F("tags", ref.TMaybe(ref.TList(ref.TStr)))),
	}
	names := []string{"n", "s", "b", "t", "xs", "m", "o", "os", "deep", "opt"}
	// now and then many more names (environment sizes around 16 / 32 / 64)
	if g.R.Intn(4) == 0 {
		extra := []int{6, 7, 8, 22, 23, 24, 54, 55, 56}[g.R.Intn(9)]
		for i := 0; i < extra; i++ {
			nm := fmt.Sprintf("f%02d", i)
			names = append(names, nm)
			types[nm] = []*ref.Ty{ref.TNum, ref.TStr, ref.TBool, ref.TList(ref.TNum)}[i%4]
		}
	}
	return names, types, c07Values(g, names, types)
}

// cleanForHost removes what host data cannot carry identically (NaN keys etc.)
func cleanForHost(v *ref.V) *ref.V {
	switch v.T.K {
	case ref.KNum:
		if v.N != v.N {
			return ref.VNum(0)
		}
	case ref.KList:
		for i := range v.L {
			v.L[i] = cleanForHost(v.L[i])
		}
	case ref.KMap:
		for i := range v.M {
			v.M[i].V = cleanForHost(v.M[i].V)
		}
	case ref.KObj:
		for i := range v.O {
			v.O[i] = cleanForHost(v.O[i])
		}
	case ref.KMaybe:
		if v.P != nil {
			v.P = cleanForHost(v.P)
		}
	}
	return v
}

// retype replaces the value at a random depth by one of another type.
func retype(g *ref.Gen, v *ref.V, d int) *ref.V {
	other := func(t *ref.Ty) *ref.V {
		for {
			nt := g.Type(1)
			if !ref.Eq(nt, t) && hostable(nt, false) {
				return cleanForHost(g.Value(nt, 1))
			}
		}
	}
	if d <= 0 {
		return other(v.T)
	}
	c := *v
	switch v.T.K {
	case ref.KList:
		if len(v.L) == 0 {
			return &ref.V{T: ref.TList(other(v.T.El).T)}
		}
		// all elements must stay homogeneous: retype every element the same way
		nv := retype(g, v.L[0], d-1)
		c.L = []*ref.V{nv}
		c.T = ref.TList(nv.T)
		return &c
	case ref.KMap:
		if len(v.M) == 0 {
			return &ref.V{T: ref.TMap(v.T.Key, other(v.T.Val).T)}
		}
		nv := retype(g, v.M[0].V, d-1)
		c.M = []ref.KV{{K: v.M[0].K, V: nv}}
		c.T = ref.TMap(v.T.Key, nv.T)
		return &c
	case ref.KObj:
		if len(v.O) == 0 {
			return other(v.T)
		}
		i := g.R.Intn(len(v.O))
		switch g.R.Intn(4) {
		case 0: // drop a field
			c.T = &ref.Ty{K: ref.KObj}
			c.O = nil
			for j, f := range v.T.Fs {
				if j != i {
					c.T.Fs = append(c.T.Fs, f)
					c.O = append(c.O, v.O[j])
				}
			}
			return &c
		case 1: // rename a field
			c.T = &ref.Ty{K: ref.KObj, Fs: append([]ref.Fld(nil), v.T.Fs...)}
			c.T.Fs[i].Name = v.T.Fs[i].Name + "2"
			return &c
		}
		var nv *ref.V
		if v.T.Fs[i].T.K == ref.KMaybe {
			// optional <-> plain
			el := v.T.Fs[i].T.El
			nv = cleanForHost(g.Value(el, 1))
		} else {
			nv = retype(g, v.O[i], d-1)
			if nv.T.K == ref.KMaybe {
				nv = other(v.T.Fs[i].T)
			}
		}
		c.T = &ref.Ty{K: ref.KObj, Fs: append([]ref.Fld(nil), v.T.Fs...)}
		c.T.Fs[i].T = nv.T
		c.O = append([]*ref.V(nil), v.O...)
		c.O[i] = nv
		return &c
	}
	return other(v.T)
}

type c07Run struct {
	kind   string
	names  []string
	vs     map[string]*ref.V
	accept bool
}

func envAccepts(cnames []string, cvs map[string]*ref.V, rnames []string, rvs map[string]*ref.V) bool {
	bound := map[string]bool{}
	for _, n := range rnames {
		bound[n] = true
	}
	for _, n := range cnames {
		v, ok := rvs[n]
		if !ok || !bound[n] || !ref.Eq(cvs[n].T, v.T) {
			return false
		}
	}
	return true
}

func runC07(c *run.Ctx) {
	sameGoType(c)
	user := ref.UserFuns()
	n := c.Pick(1200, 150000)
	for i := 0; i < n; i++ {
		if !c.Mine(i) {
			continue
		}
		id := fmt.Sprintf("envpair/%d", i)
		c.Case(id, func() {
			r := c.Rng("envpair", i)
			g := &ref.Gen{R: r, FT: funTable(user), Loc: time.Local, Opt: ref.GenOpt{MaxDepth: 3, PSugar: 0.5, UserFuns: true}}
			names, tys, vs := c07BaseT(g)
			// the compile-time environment uses a random subset of the names
			r.Shuffle(len(names), func(a, b int) { names[a], names[b] = names[b], names[a] })
			cnames := append([]string(nil), names[:3+r.Intn(len(names)-3)]...)
			if len(names) > 12 && r.Intn(2) == 0 {
				cnames = append([]string(nil), names...) // every name, including the many extra ones
			}
			// program: references every compile-time name through tr
			var parts []*ref.E
			for _, nm := range cnames {
				parts = append(parts, ref.Call("string", ref.Call("tr", ref.Str(nm), ref.Ident(nm))))
			}
			e := parts[0]
			for _, p := range parts[1:] {
				e = ref.CallF(ref.FInfix, "+", e, p)
			}
			src := ref.Render(e)
			c.Input(src)
			st := goStyle{r: r}
			// compile-time environment in a random form
			var cenv interface{}
			cform := []string{"map", "struct", "raw"}[r.Intn(3)]
			cvs := map[string]*ref.V{}
			for _, nm := range cnames {
				cvs[nm] = vs[nm]
			}
			switch cform {
			case "map":
				cenv = st.goEnvMap(cnames, cvs)
			case "struct":
				cenv = st.goEnvStruct(cnames, cvs, r.Perm(len(cnames)))
			default:
				be := bridge.NewEnv()
				for _, nm := range cnames {
					be.Put(nm, cvs[nm])
				}
				cenv = be.TypeEnv()
			}
			sess := bridge.NewSession(user)
			ex := yae.NewExpr()
			if r.Intn(2) == 0 {
				ex.UseClosureCompiler()
			}
			ex.Compile("1", nil) // built-ins first (they are registered at the first compilation)
			ex.RegisterFun(sess.UserVals...)
			var cl yae.Callable
			if err, p := convGuard(func() error { var e error; cl, e = ex.Compile(src, cenv); return e }); err != nil || p != "" {
				c.Violation("env-compile", fmt.Sprintf("compiling %q against a %s environment fails: %v %s", src, cform, err, p), nil)
				return
			}
			// a sequence of run-time environments: conforming and mismatching ones interleaved
			ft := funTable(user)
			var runs []c07Run
			fresh := func() ([]string, map[string]*ref.V) { // new values of the same types
				v2 := c07Values(g, names, tys)
				out := map[string]*ref.V{}
				for _, nm := range names {
					if ref.Eq(v2[nm].T, vs[nm].T) {
						out[nm] = v2[nm]
					} else {
						out[nm] = vs[nm] // optional presence changed the type: keep the original
					}
				}
				return append([]string(nil), names...), out
			}
			for k := 0; k < 6; k++ {
				rn, rv := fresh()
				kind := "conforming (new values, extra names)"
				switch r.Intn(7) {
				case 0:
					rn, kind = append([]string(nil), cnames...), "conforming (exactly the compile-time names)"
				case 1: // drop a compile-time name
					drop := cnames[r.Intn(len(cnames))]
					var keep []string
					for _, x := range rn {
						if x != drop {
							keep = append(keep, x)
						}
					}
					rn, kind = keep, "missing name "+drop
				case 2, 3: // retype one compile-time name at some depth
					nm := cnames[r.Intn(len(cnames))]
					nv := retype(g, rv[nm], r.Intn(4))
					if hostable(nv.T, false) {
						rv[nm] = nv
						kind = fmt.Sprintf("name %s retyped to %s", nm, nv.T.Canon())
					}
				}
				runs = append(runs, c07Run{kind, rn, rv, envAccepts(cnames, cvs, rn, rv)})
			}
			var rawShared *val.Env // one raw environment object mutated in place between calls
			for k, ru := range runs {
				form := []string{"map", "struct", "raw", "raw-same-object"}[r.Intn(4)]
				var renv interface{}
				switch form {
				case "map":
					renv = st.goEnvMap(ru.names, ru.vs)
				case "struct":
					renv = st.goEnvStruct(ru.names, ru.vs, r.Perm(len(ru.names)))
				case "raw":
					be := bridge.NewEnv()
					for _, nm := range ru.names {
						be.Put(nm, ru.vs[nm])
					}
					renv = be.ValEnv()
				default:
					if rawShared == nil {
						rawShared = val.NewEnv()
					}
					// (names dropped earlier stay bound in the shared object: only Put is public)
					for _, nm := range ru.names {
						rawShared.Put(nm, bridge.ToVal(ru.vs[nm]))
					}
					renv = rawShared
					acc := true
					for _, nm := range cnames {
						v, ok := rawShared.Get(nm)
						if !ok {
							acc = false
							break
						}
						rt, err := bridge.FromType(v.Type)
						if err != nil || !ref.Eq(rt, cvs[nm].T) {
							acc = false
						}
					}
					ru.accept = acc
				}
				c.Count("invocations_checked", 1)
				obs := sess.Begin()
				var out *val.Val
				err, p := convGuard(func() error { var e error; out, e = cl(renv); return e })
				what := fmt.Sprintf("call %d of %q (compiled against a %s environment) with a %s environment: %s", k, src, cform, form, ru.kind)
				if p != "" {
					c.Violation("env-check", what+" panics: "+p, nil)
					continue
				}
				if !ru.accept {
					if err == nil {
						c.Violation("env-check", what+" is accepted and evaluates to "+safeStr(out)+"; the environment does not conform and must be refused", nil)
					} else if len(obs.Trace) > 0 {
						c.Violation("env-check", what+" is refused but host functions were already invoked: "+traceStr(obs.Trace), nil)
					}
					continue
				}
				if err != nil {
					c.Violation("env-check", what+" is refused ("+err.Error()+") although every compile-time name is bound to a value of equal type", nil)
					continue
				}
				// conforming: the result is the reference value over the run-time values
				ec := e.Clone()
				tenv := map[string]*ref.Ty{}
				for nm, v := range ru.vs {
					tenv[nm] = v.T
				}
				if form == "raw-same-object" {
					continue // values of names not re-bound in this round are those of earlier rounds
				}
				if _, cerr := ref.Check(ec, tenv, ft); cerr == nil {
					ev := &ref.Evaluator{Env: ru.vs, FT: ft, Loc: time.Local}
					want := ev.Eval(ec)
					if rv, ierr := bridge.FromVal(out, nil); want.V != nil && (ierr != nil || !ref.Same(rv, want.V)) {
						c.Violation("env-value", what+" evaluates to "+safeStr(out)+"; over these bindings the value is "+ref.Dump(want.V), nil)
					}
				}
			}
			c.Distinct(src + cform)
			if i%211 == 0 {
				var ks []string
				for _, ru := range runs {
					ks = append(ks, fmt.Sprintf("%s => accept=%v", ru.kind, ru.accept))
				}
				c.Sample(map[string]interface{}{"source": src, "compile_env_form": cform, "run_envs": ks})
			}
		})
	}
	// types that agree for d constructor levels and differ only below
	for d := 1; d <= 72; d++ {
		if !c.Mine(d) || (c.Tier == "quick" && d > 10 && d%3 != 0 && (d < 28 || d > 36) && (d < 44 || d > 52)) {
			continue
		}
		d := d
		c.Case(fmt.Sprintf("deep-type/%d", d), func() {
			for style := 0; style < 3; style++ {
				mk := func(leaf *ref.V) *ref.V {
					v := leaf
					for k := 0; k < d; k++ {
						switch (k * (style + 1)) % 3 {
						case 0:
							v = ref.VList(v.T, v)
						case 1:
							v = ref.VMap(ref.TStr, v.T, ref.KV{K: ref.VStr("k"), V: v})
						default:
							v = ref.VObj(ref.TObj(ref.F("f", v.T), ref.F("n", ref.TNum)), v, ref.VNum(1))
						}
					}
					return v
				}
				good, good2, bad, opt := mk(ref.VNum(1)), mk(ref.VNum(2)), mk(ref.VStr("s")), mk(ref.VJust(ref.TNum, ref.VNum(1)))
				cenv := bridge.NewEnv()
				cenv.Put("x", good)
				cl, err := yae.NewExpr().Compile("len(string(x))", cenv.TypeEnv())
				if err != nil {
					c.Violation("env-compile", fmt.Sprintf("an environment with a type %d levels deep does not compile: %v", d, err), nil)
					return
				}
				for i, tc := range []struct {
					v      *ref.V
					accept bool
				}{{good2, true}, {bad, false}, {opt, false}, {good, true}} {
					be := bridge.NewEnv()
					be.Put("x", tc.v)
					c.Count("invocations_checked", 1)
					_, err := cl(be.ValEnv())
					if tc.accept != (err == nil) {
						c.Violation("env-check", fmt.Sprintf("compiled with x of a type %d constructor levels deep (style %d); invoked with a value whose type %s (variant %d): err=%v", d, style, map[bool]string{true: "is equal", false: "differs only at the innermost level"}[tc.accept], i, err), nil)
						return
					}
				}
			}
			c.Distinct(fmt.Sprintf("deep-type/%d", d))
		})
	}
	// compile-time type environments that share one composite type node
	for i := 0; i < c.Pick(300, 20000); i++ {
		if !c.Mine(i) {
			continue
		}
		c.Case(fmt.Sprintf("shared-node/%d", i), func() {
			r := c.Rng("shared", i)
			g := &ref.Gen{R: r}
			pt := []*ref.Ty{ref.TObj(ref.F("x", ref.TNum), ref.F("y", ref.TNum)), ref.TList(ref.TNum), ref.TMap(ref.TStr, ref.TNum)}[r.Intn(3)]
			node := bridge.ToType(pt)
			seg := types.Obj([]types.Field{{Name: "from", Val: node}, {Name: "to", Val: node}})
			tenv := types.NewEnv()
			tenv.Put("p", node)
			tenv.Put("q", node)
			tenv.Put("seg", seg)
			cl, err := yae.NewExpr().Compile("string(seg) + string(p) + string(q)", tenv)
			if err != nil {
				c.Violation("env-compile", "shared-node environment does not compile: "+err.Error(), nil)
				return
			}
			good := g.Value(pt, 1)
			bad := retype(g, good, r.Intn(2))
			segT := ref.TObj(ref.F("from", pt), ref.F("to", pt))
			for k := 0; k < 4; k++ {
				be := bridge.NewEnv()
				vals := map[string]*ref.V{"p": good, "q": good, "from": good, "to": good}
				which := []string{"p", "q", "from", "to", "none"}[(k+i)%5]
				if which != "none" {
					vals[which] = bad
				}
				be.Put("p", vals["p"])
				be.Put("q", vals["q"])
				sv := &ref.V{T: &ref.Ty{K: ref.KObj, Fs: []ref.Fld{{Name: "from", T: vals["from"].T}, {Name: "to", T: vals["to"].T}}}, O: []*ref.V{vals["from"], vals["to"]}}
				be.Put("seg", sv)
				accept := ref.Eq(vals["p"].T, pt) && ref.Eq(vals["q"].T, pt) && ref.Eq(sv.T, segT)
				c.Count("invocations_checked", 1)
				_, err := cl(be.ValEnv())
				if accept != (err == nil) {
					c.Violation("env-check", fmt.Sprintf("compile-time types share one node for %s; run-time value of %s has type %s: accepted=%v, must be %v (%v)", pt.Canon(), which, vals[strings.TrimSpace(which)+""].T.Canon(), err == nil, accept, err), nil)
				}
			}
		})
	}
}

type c07Iface struct {
	V interface{} `yae:"v"`
	P *int        `yae:"p"`
	K int         `yae:"k"`
}

// sameGoType: environments of ONE Go struct type whose types differ
// (interface-typed field, untagged pointer nil / non-nil).
func sameGoType(c *run.Ctx) {
	one := 1
	variants := []struct {
		env  c07Iface
		sig  string
		want string
	}{
		{c07Iface{V: 1, P: &one, K: 1}, "num/present", "1"},
		{c07Iface{V: 2.5, P: &one, K: 2}, "num/present", "2.5"},
		{c07Iface{V: "s", P: &one, K: 3}, "str/present", "s"},
		{c07Iface{V: 3, P: nil, K: 4}, "num/absent", "3"},
		{c07Iface{V: []int{1}, P: &one, K: 5}, "list/present", "[1]"},
		{c07Iface{V: true, P: &one, K: 6}, "bool/present", "true"},
	}
	for i := 0; i < c.Pick(200, 20000); i++ {
		if !c.Mine(i) {
			continue
		}
		c.Case(fmt.Sprintf("same-go-type/%d", i), func() {
			r := c.Rng("samego", i)
			first := variants[r.Intn(len(variants))]
			ex := yae.NewExpr()
			if r.Intn(2) == 0 {
				ex.UseClosureCompiler()
			}
			cl, err := ex.Compile("string(v)", first.env)
			if err != nil {
				c.Violation("env-compile", "compile against "+first.sig+" fails: "+err.Error(), nil)
				return
			}
			for k := 0; k < 8; k++ {
				v := variants[r.Intn(len(variants))]
				var env interface{} = v.env
				if r.Intn(3) == 0 {
					e2 := v.env
					env = &e2
				}
				c.Count("invocations_checked", 1)
				out, err := cl(env)
				accept := v.sig == first.sig
				what := fmt.Sprintf("call %d of string(v) compiled against a %s value of struct type c07Iface, invoked with a %s value of the same Go type", k, first.sig, v.sig)
				if accept != (err == nil) {
					c.Violation("env-check", fmt.Sprintf("%s: accepted=%v, must be %v (%v)", what, err == nil, accept, err), nil)
				} else if err == nil && out.Str().V != v.want {
					c.Violation("env-value", fmt.Sprintf("%s evaluates to %q, not %q", what, out.Str().V, v.want), nil)
				}
			}
			c.Distinct(fmt.Sprintf("samego/%s/%d", first.sig, i%7))
		})
	}
}

func init() {
	run.Register(&run.Spec{
		ID: "C07", Run: runC07, Level: "exploration",
		Rule: "(compile-time environment, run-time environment) pairs over 10 names (primitives, time, lists, maps, objects, nested objects with optional fields) in three forms each (map[string]interface{}, reflection-built struct with permuted field order, raw *types.Env / *val.Env): run-time variants = new values of equal types with extra names, exactly the compile-time names, a dropped name, a value retyped at depth 0-3 (other primitive, other element type, dropped / renamed / retyped object field, optional vs plain); six invocations of ONE Callable per case with conforming and mismatching environments interleaved, including one raw environment object re-bound in place between calls; compile-time type environments sharing one composite node; types that agree for 1..72 constructor levels and differ only at the innermost one; environments of ONE Go struct type whose type depends on the value (interface-typed field, untagged pointer) alternating on one Callable; the program passes every compile-time name through a recording host function; " +
			"monitor: accepted <=> every compile-time name is bound to a value of (reference-)equal type; a refused call leaves an empty host-call trace; an accepted call returns the reference evaluator's value. distinct = (source, form)",
		Assume:    []string{"reference type of host data is the type of the reference value it was built from (bridge to Go values in props/togo.go)"},
		MinEvents: 3000, EventKey: "invocations_checked",
	})
}
