package props

import (
	"fmt"

	"verif/harness/bridge"
	"verif/harness/ref"
)

func tr(tag string, e *ref.E) *ref.E { return ref.Call("tr", ref.Str(tag), e) }

// poison of type num / bool that leaves a trace entry if it is ever started
func poisonNum(tag string) *ref.E {
	return ref.Subscript(ref.List(tr(tag, ref.Num("1", 1))), ref.Num("1", 1))
}
func poisonBool(tag string) *ref.E {
	return ref.Subscript(ref.Map([]*ref.E{ref.Str("k")}, []*ref.E{tr(tag, ref.Bool(true))}), ref.Str("absent"))
}

type lazyForm struct {
	name string
	// build returns the expression given the selector value and the three
	// operand builders (selected operands get live expressions, the others poison)
	build func(sel int, live func(tag string) *ref.E, dead func(tag string) *ref.E) *ref.E
	nsel  int
	typ   string // "num" or "bool"
}

func lazyForms() []lazyForm {
	b := func(v bool, tag string) *ref.E { return tr(tag, ref.Bool(v)) }
	return []lazyForm{
		{"if", func(s int, live, dead func(string) *ref.E) *ref.E {
			if s == 0 {
				return ref.Call("if", b(true, "c"), live("then"), dead("else"))
			}
			return ref.Call("if", b(false, "c"), dead("then"), live("else"))
		}, 2, "num"},
		{"?:", func(s int, live, dead func(string) *ref.E) *ref.E {
			if s == 0 {
				return ref.CallF(ref.FTernary, "if", b(true, "c"), live("then"), dead("else"))
			}
			return ref.CallF(ref.FTernary, "if", b(false, "c"), dead("then"), live("else"))
		}, 2, "num"},
		{"lzIf", func(s int, live, dead func(string) *ref.E) *ref.E {
			if s == 0 {
				return ref.Call("lzIf", b(true, "c"), live("then"), dead("else"))
			}
			return ref.Call("lzIf", b(false, "c"), dead("then"), live("else"))
		}, 2, "num"},
		{"pick3", func(s int, live, dead func(string) *ref.E) *ref.E {
			ops := []*ref.E{dead("p0"), dead("p1"), dead("p2")}
			ops[s] = live(fmt.Sprintf("p%d", s))
			return ref.Call("pick3", tr("sel", ref.Num(fmt.Sprint(s), float64(s))), ops[0], ops[1], ops[2])
		}, 3, "num"},
		{"&&", func(s int, live, dead func(string) *ref.E) *ref.E {
			if s == 0 {
				return ref.CallF(ref.FInfix, "&&", b(false, "l"), dead("r"))
			}
			return ref.CallF(ref.FInfix, "&&", b(true, "l"), live("r"))
		}, 2, "bool"},
		{"||", func(s int, live, dead func(string) *ref.E) *ref.E {
			if s == 0 {
				return ref.CallF(ref.FInfix, "||", b(true, "l"), dead("r"))
			}
			return ref.CallF(ref.FInfix, "||", b(false, "l"), live("r"))
		}, 2, "bool"},
		{"lzAnd", func(s int, live, dead func(string) *ref.E) *ref.E {
			if s == 0 {
				return ref.Call("lzAnd", b(false, "l"), dead("r"))
			}
			return ref.Call("lzAnd", b(true, "l"), live("r"))
		}, 2, "bool"},
	}
}

// mutatingHostCases: a host function that appends to the list it is given.
// Every evaluation builds its literals anew, so the result never depends on
// how often the compiled code ran before (run on three environments in turn).
func mutatingHostCases() []*ProgCase {
	user := append(ref.UserFuns(), ref.Push())
	env := bridge.NewEnv()
	env.Put("n", ref.VNum(1))
	env.Put("k", ref.VNum(2))
	n := func(i int) *ref.E { return ref.Num(fmt.Sprint(i), float64(i)) }
	progs := []*ref.E{
		ref.Call("len", ref.Call("push", ref.List(n(1), n(2)), n(3))),
		ref.Call("push", ref.List(n(1)), ref.Ident("n")),
		ref.Subscript(ref.Call("push", ref.List(ref.Ident("n")), ref.Ident("k")), n(1)),
		ref.Call("len", ref.Call("push", ref.Call("push", ref.List(n(1), n(2)), n(3)), n(4))),
		ref.Call("lzIf", ref.Bool(true), ref.Call("len", ref.Call("push", ref.List(n(7)), n(8))), n(0)),
		ref.Call("len", ref.Call("push", ref.Call("union", ref.List(n(1), n(2)), ref.List(n(3))), n(4))),
		ref.Call("push", ref.Subscript(ref.List(ref.List(n(1), n(2))), n(0)), n(9)),
		ref.Call("len", ref.Call("push", ref.Member(ref.Obj([]string{"f"}, []*ref.E{ref.List(ref.Str("a"))}), "f"), ref.Str("b"))),
	}
	var out []*ProgCase
	for i, e := range progs {
		out = append(out, &ProgCase{ID: fmt.Sprintf("mutating-host/%d", i), Src: ref.Render(e), E: e, Env: env, User: user})
	}
	return out
}

// wideThunkCases: a deferred operand that needs more than the initial 42
// stack slots, followed by deferred operands that call lazy host functions in
// non-first operand positions.
func wideThunkCases() []*ProgCase {
	user := ref.UserFuns()
	env := bridge.NewEnv()
	env.Put("b", ref.VBool(true))
	env.Put("n", ref.VNum(1))
	var out []*ProgCase
	n := func(i int) *ref.E { return ref.Num(fmt.Sprint(i), float64(i)) }
	for _, w := range []int{3, 41, 42, 43, 44, 50, 542, 543, 600} {
		wide := func() *ref.E { return ref.Call("len", wideList(w, numLit)) }
		wideSum := func() *ref.E {
			return ref.Call("max", wideList(w, func(i int) *ref.E { return ref.CallF(ref.FInfix, "+", numLit(i), ref.Ident("n")) }))
		}
		later := []func() *ref.E{
			func() *ref.E { return ref.Call("fst", tr("x", n(1)), ref.Call("lzIf", ref.Ident("b"), n(2), n(3))) },
			func() *ref.E {
				return ref.CallF(ref.FInfix, "+", tr("y", n(1)), ref.Call("pick3", ref.Ident("n"), n(4), n(5), n(6)))
			},
			func() *ref.E { return ref.List(tr("z", n(1)), ref.Call("lzIf", ref.Ident("b"), n(7), n(8)), n(9)) },
			func() *ref.E {
				return ref.Call("lzIf", ref.Ident("b"), ref.Call("fst", tr("u", n(1)), ref.Call("lzIf", ref.Ident("b"), n(2), n(3))), n(0))
			},
		}
		for li, l := range later {
			progs := []*ref.E{
				ref.Call("pick3", ref.Ident("n"), wide(), ref.Call("len", ref.List(l())), n(0)),
				ref.CallF(ref.FInfix, "+", ref.Call("lzIf", ref.Ident("b"), wide(), n(0)), ref.Call("lzIf", ref.Ident("b"), ref.Call("len", ref.List(l())), n(0))),
				ref.Call("rev2", ref.Call("len", ref.List(l())), wideSum()),
				ref.Call("lzIf", ref.CallF(ref.FInfix, ">", wide(), n(0)), ref.Call("len", ref.List(l())), wideSum()),
			}
			for pi, e := range progs {
				out = append(out, &ProgCase{ID: fmt.Sprintf("wide-thunk/%d/%d/%d", w, li, pi), Src: ref.Render(e), E: e, Env: env, User: user})
			}
		}
	}
	return out
}

// lazyCases enumerates laziness / evaluation-order programs: every lazy form
// with every selection, nested two and three deep (thunk bodies that call
// lazy functions), strict operand positions, and the guarded-access idiom.
func lazyCases() []*ProgCase {
	user := ref.UserFuns()
	env := bridge.NewEnv()
	env.Put("m", ref.VMap(ref.TStr, ref.TNum, ref.KV{K: ref.VStr("a"), V: ref.VNum(1)}, ref.KV{K: ref.VStr("b"), V: ref.VNum(2)}))
	env.Put("xs", ref.VList(ref.TNum, ref.VNum(10), ref.VNum(20)))
	env.Put("empty", ref.VMap(ref.TStr, ref.TNum))
	env.Put("fs", &ref.V{T: ref.TList(ref.TFun([]*ref.Ty{ref.TNum}, ref.TNum))})
	var out []*ProgCase
	add := func(id string, e *ref.E) {
		out = append(out, &ProgCase{ID: "lazy/" + id, Src: ref.Render(e), E: e, Env: env, User: user})
	}
	forms := lazyForms()
	seq := 0
	liveOf := func(typ string) func(string) *ref.E {
		return func(tag string) *ref.E {
			seq++
			if typ == "bool" {
				return tr(tag, ref.Bool(seq%2 == 0))
			}
			return tr(tag, ref.Num(fmt.Sprint(seq), float64(seq)))
		}
	}
	deadOf := func(typ string) func(string) *ref.E {
		return func(tag string) *ref.E {
			if typ == "bool" {
				return poisonBool("DEAD-" + tag)
			}
			return poisonNum("DEAD-" + tag)
		}
	}
	// depth 1
	for _, f := range forms {
		for s := 0; s < f.nsel; s++ {
			add(fmt.Sprintf("d1/%s/%d", f.name, s), f.build(s, liveOf(f.typ), deadOf(f.typ)))
		}
	}
	// depth 2: the selected operand of the outer form is itself a lazy form of
	// the same result type
	for _, f := range forms {
		for s := 0; s < f.nsel; s++ {
			for _, g := range forms {
				if g.typ != f.typ {
					continue
				}
				for s2 := 0; s2 < g.nsel; s2++ {
					g, s2 := g, s2
					inner := func(tag string) *ref.E { return g.build(s2, liveOf(g.typ), deadOf(g.typ)) }
					add(fmt.Sprintf("d2/%s/%d/%s/%d", f.name, s, g.name, s2), f.build(s, inner, deadOf(f.typ)))
				}
			}
		}
	}
	// strict harness functions with many parameters: every argument once, left to right
	for _, n := range []int{4, 5, 6, 9, 17} {
		args := make([]*ref.E, n)
		for i := range args {
			args[i] = tr(fmt.Sprintf("a%d", i), ref.Num(fmt.Sprint(i), float64(i)))
		}
		e := ref.Call("many", args...)
		out = append(out, &ProgCase{ID: fmt.Sprintf("lazy/many/%d", n), Src: ref.Render(e), E: e, Env: env, User: append(ref.UserFuns(), ref.Many(n))})
		args2 := make([]*ref.E, n)
		for i := range args2 {
			args2[i] = ref.Num(fmt.Sprint(i), float64(i))
			if i%2 == 1 || i == n-1 {
				args2[i] = ref.Call("lzIf", tr(fmt.Sprintf("c%d", i), ref.Bool(i%4 == 1)), tr(fmt.Sprintf("t%d", i), ref.Num("1", 1)), tr(fmt.Sprintf("e%d", i), ref.Num("2", 2)))
			}
		}
		e2 := ref.CallF(ref.FInfix, "+", ref.Call("many", args2...), tr("after", ref.Num("0", 0)))
		out = append(out, &ProgCase{ID: fmt.Sprintf("lazy/many-mixed/%d", n), Src: ref.Render(e2), E: e2, Env: env, User: append(ref.UserFuns(), ref.Many(n))})
	}
	// overload sets whose members differ in evaluation strategy
	{
		n := func(i int) *ref.E { return ref.Num(fmt.Sprint(i), float64(i)) }
		xs := func() *ref.E { return ref.Ident("xs") }
		mixed := []*ref.E{
			ref.Call("sel", tr("c", ref.Bool(true)), tr("x", n(1))),
			ref.Call("sel", tr("l", xs()), tr("x", n(2))),
			ref.Call("sel", ref.List(tr("e", n(3))), tr("x", n(4))),
			ref.Call("sel2", tr("n", n(5)), tr("x", n(6))),
			ref.Call("sel2", tr("l", xs()), tr("x", n(7))),
			ref.Call("sel2", ref.List(poisonNum("DEAD-l")), tr("x", n(8))),
			ref.CallF(ref.FInfix, "+", ref.Call("sel", tr("c", ref.Bool(false)), tr("x", n(1))), ref.Call("sel", tr("l", xs()), tr("y", n(2)))),
			ref.CallF(ref.FInfix, "+", ref.Call("sel2", tr("l", xs()), tr("x", n(1))), ref.Call("sel2", tr("n", n(0)), tr("y", n(2)))),
			ref.Call("sel", tr("c", ref.Bool(true)), ref.Call("sel", tr("l", xs()), ref.Call("sel2", tr("l2", xs()), tr("x", n(9))))),
			ref.Call("lzIf", ref.Call("sel", xs(), tr("c", ref.Bool(true))), ref.Call("sel2", xs(), tr("t", n(1))), poisonNum("DEAD-else")),
		}
		for i, e := range mixed {
			add(fmt.Sprintf("mixed-strategy/%d", i), e)
		}
	}
	// depth 3 (user lazy functions only: nested deferred code on the VM)
	userForms := []lazyForm{}
	for _, f := range forms {
		if f.name == "lzIf" || f.name == "pick3" || f.name == "if" {
			userForms = append(userForms, f)
		}
	}
	for _, f := range userForms {
		for _, g := range userForms {
			for _, h := range userForms {
				for s := 0; s < 2; s++ {
					f, g, h, s := f, g, h, s
					in2 := func(tag string) *ref.E { return h.build(s, liveOf("num"), deadOf("num")) }
					in1 := func(tag string) *ref.E { return g.build(1-s, in2, deadOf("num")) }
					add(fmt.Sprintf("d3/%s/%s/%s/%d", f.name, g.name, h.name, s), f.build(s, in1, deadOf("num")))
				}
			}
		}
	}
	// bool-typed conditions that are themselves lazy calls
	add("cond-lazy", ref.Call("lzIf", ref.CallF(ref.FInfix, "&&", tr("a", ref.Bool(true)), ref.Call("lzAnd", tr("b", ref.Bool(true)), tr("c", ref.Bool(false)))),
		poisonNum("DEAD"), tr("v", ref.Num("7", 7))))
	// rev2 forces the second operand before the first
	add("rev2", ref.Call("rev2", tr("first", ref.Num("1", 1)), tr("second", ref.Num("2", 2))))
	add("rev2-nested", ref.Call("rev2", ref.Call("lzIf", tr("c", ref.Bool(true)), tr("x", ref.Num("1", 1)), poisonNum("DEAD")), tr("second", ref.Num("2", 2))))
	// strict operand positions, left to right, exactly once
	n := func(i int) *ref.E { return ref.Num(fmt.Sprint(i), float64(i)) }
	add("strict/args", ref.Call("fst", tr("a", n(1)), tr("b", n(2))))
	add("strict/args3", ref.Call("get", tr("l", ref.List(n(1), n(2))), tr("i", n(1)), tr("d", n(9))))
	add("strict/list", ref.List(tr("e0", n(1)), tr("e1", n(2)), tr("e2", n(3))))
	add("strict/map", ref.Map([]*ref.E{tr("k0", ref.Str("x")), tr("k1", ref.Str("y")), tr("k2", ref.Str("x"))}, []*ref.E{tr("v0", n(1)), tr("v1", n(2)), tr("v2", n(3))}))
	add("strict/obj", ref.Obj([]string{"p", "q", "r"}, []*ref.E{tr("p", n(1)), tr("q", ref.Str("s")), tr("r", n(3))}))
	add("strict/subscript", ref.Subscript(tr("c", ref.List(n(1), n(2))), tr("i", n(1))))
	add("strict/mapsub", ref.Subscript(tr("c", ref.Ident("m")), tr("k", ref.Str("b"))))
	add("strict/member", ref.Member(tr("o", ref.Obj([]string{"p", "q"}, []*ref.E{tr("p", n(1)), tr("q", n(2))})), "q"))
	add("strict/method", ref.CallF(ref.FMethod, "fst", tr("recv", n(1)), tr("arg", n(2))))
	add("strict/binary", ref.CallF(ref.FInfix, "-", tr("l", n(5)), tr("r", n(3))))
	add("strict/binary-nested", ref.CallF(ref.FInfix, "+", ref.CallF(ref.FInfix, "*", tr("a", n(2)), tr("b", n(3))), ref.CallF(ref.FInfix, "^", tr("c", n(2)), tr("d", n(2)))))
	add("strict/unary", ref.CallF(ref.FPrefix, "-", tr("x", n(4))))
	add("strict/cmp", ref.CallF(ref.FInfix, "<", tr("l", n(1)), tr("r", n(2))))
	add("strict/eqlist", ref.CallF(ref.FInfix, "==", tr("l", ref.List(n(1))), tr("r", ref.List(n(1)))))
	add("strict/failing-later", ref.List(tr("before", n(1)), poisonNum("fails"), tr("after", n(3))))
	add("strict/failing-key", ref.Map([]*ref.E{tr("k0", ref.Str("x")), ref.Subscript(ref.List(tr("kf", ref.Str("y"))), n(1))}, []*ref.E{tr("v0", n(1)), tr("v1", n(2))}))
	add("strict/wrap-in-lazy", ref.Call("lzIf", tr("c", ref.Bool(true)), ref.Call("fst", tr("a", n(1)), tr("b", n(2))), poisonNum("DEAD")))
	// the guarded idiom over present / absent keys and in / out of range indices
	for _, k := range []string{"a", "b", "zz", ""} {
		add("guard/map/"+k, ref.Call("if", ref.Call("isset", ref.Ident("m"), ref.Str(k)), ref.Subscript(ref.Ident("m"), ref.Str(k)), n(0)))
		add("guard/map-ternary/"+k, ref.CallF(ref.FTernary, "if", ref.Call("isset", ref.Ident("m"), ref.Str(k)), ref.Subscript(ref.Ident("m"), ref.Str(k)), n(0)))
		add("guard/empty/"+k, ref.Call("if", ref.Call("isset", ref.Ident("empty"), ref.Str(k)), ref.Subscript(ref.Ident("empty"), ref.Str(k)), n(0)))
		add("guard/and/"+k, ref.CallF(ref.FInfix, "&&", ref.Call("isset", ref.Ident("m"), ref.Str(k)), ref.CallF(ref.FInfix, ">", ref.Subscript(ref.Ident("m"), ref.Str(k)), n(1))))
		add("guard/or/"+k, ref.CallF(ref.FInfix, "||", ref.CallF(ref.FPrefix, "!", ref.Call("isset", ref.Ident("m"), ref.Str(k))), ref.CallF(ref.FInfix, ">", ref.Subscript(ref.Ident("m"), ref.Str(k)), n(1))))
	}
	for i := 0; i < 4; i++ {
		add(fmt.Sprintf("guard/list/%d", i), ref.Call("if", ref.CallF(ref.FInfix, "<", n(i), ref.Call("len", ref.Ident("xs"))), ref.Subscript(ref.Ident("xs"), n(i)), n(0)))
		add(fmt.Sprintf("guard/mod/%d", i), ref.Call("if", ref.CallF(ref.FInfix, "!=", n(i), n(0)), ref.CallF(ref.FInfix, "%", n(7), n(i)), n(0)))
	}
	return out
}
