// Package props holds one workload + monitor set per property.
package props

import (
	"fmt"
	"strings"
	"time"

	yae "github.com/goghcrow/yae"
	"github.com/goghcrow/yae/parser/ast"
	"github.com/goghcrow/yae/types"
	"github.com/goghcrow/yae/val"
	"github.com/goghcrow/yae/vm"

	"verif/harness/bridge"
	"verif/harness/ref"
	"verif/harness/run"
)

// ProgCase is one generated program with its environment and user functions.
type ProgCase struct {
	ID   string
	Src  string
	E    *ref.E // nil for source-only cases
	Env  *bridge.Env
	User []*ref.Fun
	Back []bridge.Backend // nil = all four
	// SameEnvObject: further environments are bound into the SAME run-time
	// environment object (Put) instead of fresh ones
	SameEnvObject bool
	// AsAST: feed the explicit tree directly (no lexer / parser); Src is then
	// only a label
	AsAST bool
}

// BackObs is what one back end did.
type BackObs struct {
	CompErr *bridge.CompileErr
	Type    *ref.Ty
	TypeErr error
	Res     bridge.Result
	RV      *ref.V // result read back (nil if it failed or is ill-formed)
	Ill     error  // ill-formedness of the result value
	Skipped string // e.g. known exec-limit of the call-threaded loop
}

// ProgObs is everything observed and predicted for one case.
type ProgObs struct {
	Case     *ProgCase
	RefType  *ref.Ty
	RefErr   error
	RefOut   ref.Outcome
	RefTrace []ref.TraceEntry
	RefPrint []string
	Back     [bridge.NBackends]*BackObs
	BC       *bridge.BCInfo
	BCErr    error
	VMRefuse string
}

// set by C11's workload: structurally unsafe code is reported, not run
var skipExecOnBadBytecode = false

func funTable(user []*ref.Fun) *ref.FunTable {
	ft := ref.Builtins()
	ft.Add(user...)
	return ft
}

// engines: long-lived public engines, one per (set of harness functions,
// compiler), shared by all cases of a worker process: whatever an engine
// keeps between compilations (caches, lexers, tables) is exercised by every
// program of the streams, not only by the dedicated history families.
type liveEngine struct {
	ex   *yae.Expr
	sess *bridge.Session
}

var (
	engines    = map[string]*liveEngine{}
	engineKeys []string
	// NoEngines switches the two engine back ends off (checks that count on
	// exactly four back ends or on process-fresh state)
	NoEngines = false
)

func engineFor(user []*ref.Fun, closureCompiler bool) *liveEngine {
	key := fmt.Sprint(closureCompiler)
	for _, f := range user {
		key += fmt.Sprintf("|%p", f)
	}
	if e, ok := engines[key]; ok {
		return e
	}
	if len(engineKeys) >= 48 { // sets built per case (fresh function objects) would pile up
		delete(engines, engineKeys[0])
		engineKeys = engineKeys[1:]
	}
	sess := bridge.NewSession(user)
	ex := yae.NewExpr()
	if closureCompiler {
		ex.UseClosureCompiler()
	}
	ex.Compile("1", nil) // built-ins first, then the harness functions, as in the reference table
	ex.RegisterFun(sess.UserVals...)
	e := &liveEngine{ex, sess}
	engines[key] = e
	engineKeys = append(engineKeys, key)
	return e
}

// runOnEngine: the case through a long-lived public engine.
func runOnEngine(pc *ProgCase, envs []*bridge.Env, obs []*ProgObs, b bridge.Backend, vmType *types.Type) {
	eng := engineFor(pc.User, b == bridge.EngineClosure)
	var cl yae.Callable
	var cerr *bridge.CompileErr
	func() {
		defer func() {
			if r := recover(); r != nil {
				cerr = &bridge.CompileErr{Stage: "engine-panic", Msg: fmt.Sprint(r)}
			}
		}()
		c, err := eng.ex.Compile(pc.Src, pc.Env.TypeEnv())
		if err != nil {
			// the engine does not say at which stage it refused: take the stage
			// the plain pipeline reports for the same program
			stage := "check"
			if vb := obs[0].Back[bridge.VM]; vb != nil && vb.CompErr != nil {
				stage = vb.CompErr.Stage
			}
			cerr = &bridge.CompileErr{Stage: stage, Msg: err.Error()}
			return
		}
		cl = c
	}()
	var rt *val.Env
	for i, env := range envs {
		bo := &BackObs{}
		obs[i].Back[b] = bo
		if cerr != nil {
			bo.CompErr = cerr
			continue
		}
		if vb := obs[i].Back[bridge.VM]; vb != nil && vb.CompErr == nil {
			bo.Type = vb.Type
		}
		venv := env.ValEnv()
		if pc.SameEnvObject {
			if i == 0 {
				rt = venv
			} else {
				for _, n := range env.Names {
					rt.Put(n, bridge.ToVal(env.V[n]))
				}
			}
			venv = rt
		}
		bo.Res = eng.sess.ExecFunc(func() *val.Val {
			v, err := cl(venv)
			if err != nil {
				panic(err.Error())
			}
			return v
		})
		if bo.Res.Class == bridge.OValue {
			bo.RV, bo.Ill = bridge.FromVal(bo.Res.Val, vmType)
		}
	}
}

// RunProg runs the reference (if an expression is given) and the real back
// ends on one case. It never panics; host panics are observations.
func RunProg(pc *ProgCase) *ProgObs { return RunProgMulti(pc, nil)[0] }

// RunProgMulti compiles once per back end and executes on pc.Env and then on
// every further environment (equal types, other values / layouts): one
// observation per environment, the compiled code shared between them.
func RunProgMulti(pc *ProgCase, more []*bridge.Env) []*ProgObs {
	envs := append([]*bridge.Env{pc.Env}, more...)
	obs := make([]*ProgObs, len(envs))
	ft := funTable(pc.User)
	for i, env := range envs {
		c2 := *pc
		c2.Env = env
		o := &ProgObs{Case: &c2}
		obs[i] = o
		if pc.E != nil {
			e := pc.E.Clone()
			o.RefType, o.RefErr = ref.Check(e, env.T, ft)
			if o.RefErr == nil {
				ev := &ref.Evaluator{Env: env.V, FT: ft, Loc: time.Local}
				o.RefOut = ev.Eval(e)
				o.RefTrace, o.RefPrint = ev.Trace, ev.Printed
			}
		}
	}
	backs := pc.Back
	if backs == nil {
		backs = []bridge.Backend{bridge.VM, bridge.VMCall, bridge.Closure, bridge.Interp}
		if !NoEngines && !pc.AsAST {
			backs = append(backs, bridge.Engine, bridge.EngineClosure)
		}
	}
	var vmType *types.Type
	for _, b := range backs {
		if b == bridge.Engine || b == bridge.EngineClosure {
			runOnEngine(pc, envs, obs, b, vmType)
			continue
		}
		sess := bridge.NewSession(pc.User)
		var c *bridge.Compiled
		var cerr *bridge.CompileErr
		if pc.AsAST {
			var tree ast.Expr
			if e := func() (err *bridge.CompileErr) {
				defer func() {
					if r := recover(); r != nil {
						err = &bridge.CompileErr{Stage: "parse", Msg: fmt.Sprint(r)}
					}
				}()
				tree = bridge.ToAST(pc.E)
				return nil
			}(); e != nil {
				cerr = e
			} else {
				c, cerr = sess.CompileTree(tree, pc.Env.TypeEnv(), b)
			}
		} else {
			c, cerr = sess.Compile(pc.Src, pc.Env.TypeEnv(), b)
		}
		if cerr == nil && b == bridge.VM {
			vmType = c.Type
		}
		var bc *bridge.BCInfo
		var bcErr error
		if cerr == nil && b == bridge.VM {
			// bytecode view of what the VM will run (hook H2)
			func() {
				defer func() {
					if r := recover(); r != nil {
						bcErr = fmt.Errorf("VerifCompile panicked: %v", r)
					}
				}()
				p := vm.VerifCompile(c.Tree, sess.VEnv)
				bc, bcErr = bridge.VerifyProgram(p)
			}()
		}
		var rt *val.Env
		for i, env := range envs {
			o := obs[i]
			bo := &BackObs{}
			o.Back[b] = bo
			if b == bridge.VM {
				o.BC, o.BCErr = bc, bcErr
			}
			if cerr != nil {
				bo.CompErr = cerr
				continue
			}
			bo.Type, bo.TypeErr = bridge.FromType(c.Type)
			if skipExecOnBadBytecode && obs[0].BCErr != nil && (b == bridge.VM || b == bridge.VMCall) {
				// C11 only: code that failed verification is not executed
				bo.Skipped = "bytecode failed verification"
				continue
			}
			if pc.SameEnvObject {
				if i == 0 {
					rt = c.Bind(env.ValEnv())
				} else {
					for _, n := range env.Names {
						rt.Put(n, bridge.ToVal(env.V[n]))
					}
				}
				bo.Res = c.ExecOn(rt)
			} else {
				bo.Res = c.Exec(env.ValEnv())
			}
			if bo.Res.Class == bridge.OValue {
				bo.RV, bo.Ill = bridge.FromVal(bo.Res.Val, c.Type)
			}
		}
	}
	for _, o := range obs {
		o.BC, o.BCErr = obs[0].BC, obs[0].BCErr
		// the call-threaded loop gives up after 1024 dispatches (known finding
		// D15): such executions are excluded from every comparison but C03's
		if vc := o.Back[bridge.VMCall]; vc != nil && vc.CompErr == nil && vc.Res.Class == bridge.OLimit {
			if o.BC != nil && o.BC.MaxBody >= 1024 {
				vc.Skipped = fmt.Sprintf("callthread exec limit with an activation of %d instructions", o.BC.MaxBody)
			}
		}
	}
	return obs
}

func (o *ProgObs) Accepted() bool {
	for _, b := range o.Back {
		if b != nil && b.CompErr == nil {
			return true
		}
	}
	return false
}

func traceStr(t []ref.TraceEntry) string {
	var sb strings.Builder
	for i, e := range t {
		if i > 0 {
			sb.WriteString(" ; ")
		}
		sb.WriteString(e.Fn + "(" + e.Args + ")")
	}
	return sb.String()
}

func sameTrace(a, b []ref.TraceEntry) bool {
	if len(a) != len(b) {
		return false
	}
	for i := range a {
		if a[i] != b[i] {
			return false
		}
	}
	return true
}

// describe renders an observation for witnesses.
func (b *BackObs) describe() string {
	switch {
	case b == nil:
		return "not run"
	case b.CompErr != nil:
		return "COMPILE-ERROR " + b.CompErr.Error()
	case b.Skipped != "":
		return "SKIPPED " + b.Skipped
	case b.Res.Class == bridge.OValue:
		if b.Ill != nil {
			return "ILL-FORMED VALUE " + b.Ill.Error()
		}
		return "VALUE " + ref.Dump(b.RV)
	default:
		return string(b.Res.Class) + " " + b.Res.Msg
	}
}

func (o *ProgObs) witness() map[string]interface{} {
	w := map[string]interface{}{"src": o.Case.Src}
	if o.Case.E != nil {
		if o.RefErr != nil {
			w["reference"] = "REJECT " + o.RefErr.Error()
		} else {
			w["reference"] = o.RefOut.String() + " : " + o.RefType.Canon()
			w["reference_trace"] = traceStr(o.RefTrace)
		}
	}
	for i, b := range o.Back {
		if b != nil {
			w[bridge.Backend(i).String()] = b.describe()
			if b.CompErr == nil && b.Res.Obs != nil {
				w[bridge.Backend(i).String()+"_trace"] = traceStr(b.Res.Obs.Trace)
			}
		}
	}
	env := map[string]string{}
	for _, n := range o.Case.Env.Names {
		env[n] = ref.Dump(o.Case.Env.V[n]) + " : " + o.Case.Env.T[n].Decl()
	}
	w["env"] = env
	return w
}

// failClassOf maps a reference failure to the observable class.
func failClassOf(f *ref.Fail) bridge.OutClass {
	switch f.Class {
	case ref.FIndex:
		return bridge.OIndex
	case ref.FKey:
		return bridge.OKey
	case ref.FMod0:
		return bridge.OMod0
	default:
		return bridge.ORegex
	}
}

// stdGen builds the standard generator + environment for one case.
func stdGen(c *run.Ctx, stream string, i int, opt ref.GenOpt, user []*ref.Fun) (*ref.Gen, *bridge.Env) {
	r := c.Rng(stream, i)
	g := &ref.Gen{R: r, FT: funTable(user), Opt: opt, Loc: time.Local}
	names, ts, vs := g.StdEnv()
	env := bridge.NewEnv()
	for _, n := range names {
		env.PutTyped(n, ts[n], vs[n])
	}
	g.EnvT, g.Vars = ts, names
	return g, env
}

// progKey is the distinctness key of a program: its source with literals kept.
func progKey(src string) string { return src }

// nontrivial: a program with at least one call / access node.
func nontrivial(e *ref.E) bool {
	n := 0
	e.Walk(func(x *ref.E) {
		switch x.K {
		case ref.ECall, ref.EDynCall, ref.EMember, ref.ESubscript:
			n++
		}
	})
	return n >= 1
}
