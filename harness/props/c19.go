package props

import (
	"fmt"
	"reflect"
	"strings"
	"time"

	yae "github.com/goghcrow/yae"
	"github.com/goghcrow/yae/closure"
	"github.com/goghcrow/yae/debug"
	"github.com/goghcrow/yae/trans"
	"github.com/goghcrow/yae/types"
	"github.com/goghcrow/yae/val"

	"verif/harness/bridge"
	"verif/harness/ref"
	"verif/harness/run"
)

type dbgEntry struct {
	col int
	v   *ref.V
	src string
}

// debugRun compiles with closure.DebugCompile and runs with a fresh record
// (or, reuseRecord, with a record that already served one evaluation).
func debugRun(sess *bridge.Session, src string, env *bridge.Env, reuseRecord bool) (res bridge.Result, entries []debug.VerifEntry, report string, cerr *bridge.CompileErr, rerr string) {
	tree, err := sess.ParseSrc(src)
	if err != nil {
		return res, nil, "", err, ""
	}
	var cl func(*val.Env) *val.Val
	var ty *types.Type
	if e := func() (ce *bridge.CompileErr) {
		defer func() {
			if r := recover(); r != nil {
				ce = &bridge.CompileErr{Stage: "check", Msg: fmt.Sprint(r)}
			}
		}()
		de := trans.Desugar(tree)
		ty = types.Check(de, env.TypeEnv().Inherit(sess.TEnv))
		c := closure.DebugCompile(de, sess.VEnv)
		cl = func(e *val.Env) *val.Val { return c(e) }
		return nil
	}(); e != nil {
		return res, nil, "", e, ""
	}
	_ = ty
	rcd := debug.NewRecord()
	venv := env.ValEnv()
	venv.Dgb = rcd
	rt := venv.Inherit(sess.VEnv)
	if reuseRecord {
		// the same record serves a first evaluation; DebugCompile clears it
		// before every run, so the second run must look like a first one
		sess.ExecFunc(func() *val.Val { return cl(rt) })
	} else if len(src)%3 == 1 {
		// the compiled debug closure has already run once with ANOTHER record
		// (and other values are not needed: the same environment content)
		other := debug.NewRecord()
		venv0 := env.ValEnv()
		venv0.Dgb = other
		rt0 := venv0.Inherit(sess.VEnv)
		sess.ExecFunc(func() *val.Val { return cl(rt0) })
	}
	res = sess.ExecFunc(func() *val.Val { return cl(rt) })
	entries = rcd.VerifEntries()
	func() {
		defer func() {
			if r := recover(); r != nil {
				rerr = fmt.Sprint(r)
			}
		}()
		report = rcd.Render(src)
	}()
	return
}

func runeSlice(s string, from, n int) (string, bool) {
	rs := []rune(s)
	if from < 0 || from+n > len(rs) {
		return "", false
	}
	return string(rs[from : from+n]), true
}

// reportShows: the rendering of v appears with its first character in column
// col (1-based), its further lines directly below.
func reportShows(lines []string, col int, text string) bool {
	parts := strings.Split(strings.ReplaceAll(strings.ReplaceAll(text, "\r\n", "\n"), "\r", "\n"), "\n")
	for i := 2; i+len(parts) <= len(lines); i++ {
		ok := true
		for k, p := range parts {
			got, fits := runeSlice(lines[i+k], col-1, len([]rune(p)))
			if !fits || got != p {
				ok = false
				break
			}
		}
		if ok {
			return true
		}
	}
	return false
}

func checkDebug(c *run.Ctx, id string, e *ref.E, env *bridge.Env, user []*ref.Fun, hostEnv map[string]interface{}) {
	src, cols := ref.RenderCols(e)
	if strings.ContainsAny(src, "\n\r") {
		return // debug mode is defined for single-line sources
	}
	c.Input(src)
	ft := funTable(user)
	rt, rerr := ref.Check(e, env.T, ft)
	_ = rt
	var want []dbgEntry
	var out ref.Outcome
	if rerr == nil {
		ev := &ref.Evaluator{Env: env.V, FT: ft, Loc: time.Local}
		ev.Dbg = func(n *ref.E, v *ref.V) {
			want = append(want, dbgEntry{cols[n] + 1, v, ref.Render(n)})
		}
		out = ev.Eval(e)
		if out.Silent != nil {
			return
		}
	}
	sess := bridge.NewSession(user)
	reuse := len(src)%3 == 0
	res, entries, report, cerr, renderErr := debugRun(sess, src, env, reuse)
	if reuse {
		c.Count("record_reused", 1)
	}
	if (cerr == nil) != (rerr == nil) {
		return // acceptance is C05's subject
	}
	if cerr != nil {
		return
	}
	c.Count("debug_runs", 1)
	c.Distinct(src)
	// same result / failure as normal evaluation (reference and the other back ends)
	normal := RunProg(&ProgCase{ID: id, Src: src, E: e.Clone(), Env: env, User: user, Back: []bridge.Backend{bridge.VM, bridge.Closure}})
	w := func() interface{} {
		m := normal.witness()
		m["debug_outcome"] = string(res.Class) + " " + res.Msg
		m["report"] = report
		var es []string
		for _, en := range entries {
			es = append(es, fmt.Sprintf("%s@%d", safeStr(en.V), en.Col))
		}
		m["recorded"] = es
		var ws []string
		for _, en := range want {
			ws = append(ws, fmt.Sprintf("%s@%d(%s)", ref.Show(en.v), en.col, en.src))
		}
		m["expected"] = ws
		return m
	}
	if out.Fail != nil {
		if res.Class != failClassOf(out.Fail) {
			c.Violation("debug-result", fmt.Sprintf("debug evaluation ends %s %s; normal evaluation fails with %s :: %s", res.Class, res.Msg, out.Fail.Class, src), w())
		}
	} else {
		if res.Class != bridge.OValue {
			c.Violation("debug-result", fmt.Sprintf("debug evaluation fails (%s %s); normal evaluation yields %s :: %s", res.Class, res.Msg, ref.Dump(out.V), src), w())
		} else if rv, err := bridge.FromVal(res.Val, nil); err != nil || !ref.Same(rv, out.V) {
			c.Violation("debug-result", fmt.Sprintf("debug evaluation yields %v; normal evaluation yields %s :: %s", safeStr(res.Val), ref.Dump(out.V), src), w())
		}
	}
	for _, b := range []bridge.Backend{bridge.VM, bridge.Closure} {
		nb := normal.Back[b]
		if nb != nil && nb.CompErr == nil && nb.Res.Class != res.Class {
			c.Violation("debug-result", fmt.Sprintf("debug evaluation ends %s, %s ends %s :: %s", res.Class, b, nb.Res.Class, src), w())
		}
	}
	// the recorded intermediate values
	c.Count("entries_checked", len(entries))
	if len(entries) != len(want) {
		c.Violation("debug-entries", fmt.Sprintf("%d values recorded, %d sub-expressions were evaluated :: %s", len(entries), len(want), src), w())
	} else {
		for i, en := range entries {
			rv, err := bridge.FromVal(en.V, nil)
			if err != nil {
				c.Violation("debug-entries", fmt.Sprintf("recorded value %d is ill-formed: %v :: %s", i, err, src), w())
				break
			}
			if !ref.Same(rv, want[i].v) {
				c.Violation("debug-entries", fmt.Sprintf("recorded value %d is %s; sub-expression %s evaluated to %s :: %s", i, ref.Dump(rv), want[i].src, ref.Dump(want[i].v), src), w())
				break
			}
			if en.Col != want[i].col {
				c.Violation("debug-column", fmt.Sprintf("value %d (%s of %s) attributed to column %d; its term is at column %d :: %s", i, ref.Show(rv), want[i].src, en.Col, want[i].col, src), w())
				break
			}
		}
	}
	// the report
	if renderErr != "" {
		c.Violation("debug-render", fmt.Sprintf("rendering the report fails: %s :: %s", renderErr, src), w())
		return
	}
	lines := strings.Split(report, "\n")
	if len(lines) == 0 || lines[0] != src {
		c.Violation("debug-render", fmt.Sprintf("first line of the report is not the source :: %s", src), w())
		return
	}
	for i, en := range want {
		if i >= len(entries) {
			break
		}
		if hasFunVal(en.v) {
			continue // function values print their address
		}
		if !reportShows(lines, en.col, ref.Show(en.v)) {
			c.Violation("debug-render", fmt.Sprintf("the report does not show %s (value of %s) at column %d :: %s", ref.Show(en.v), en.src, en.col, src), w())
			break
		}
	}
	// the public entry point on host data (built-ins only)
	if hostEnv != nil && len(user) == 0 {
		c.Count("facade_debug_runs", 1)
		var fv *val.Val
		var frep string
		var ferr error
		if p := func() (p string) {
			defer func() {
				if r := recover(); r != nil {
					p = fmt.Sprint(r)
				}
			}()
			fv, frep, ferr = yae.Debug(src, hostEnv)
			return ""
		}(); p != "" {
			c.Violation("debug-facade", fmt.Sprintf("yae.Debug panics: %s :: %s", p, src), w())
			return
		}
		if (ferr == nil) != (res.Class == bridge.OValue) {
			c.Violation("debug-facade", fmt.Sprintf("yae.Debug err=%v but the debug closure ended %s :: %s", ferr, res.Class, src), w())
			return
		}
		if ferr == nil {
			if rv, err := bridge.FromVal(fv, nil); err != nil || !ref.Same(rv, out.V) {
				c.Violation("debug-facade", fmt.Sprintf("yae.Debug yields %s; normal evaluation yields %s :: %s", safeStr(fv), ref.Dump(out.V), src), w())
			}
		}
		if frep != report {
			c.Violation("debug-facade", fmt.Sprintf("yae.Debug report differs from the report of the same record :: %s", src), map[string]string{"facade": frep, "record": report})
		}
	}
}

func hasFunVal(v *ref.V) bool {
	switch v.T.K {
	case ref.KFun:
		return true
	case ref.KList:
		for _, x := range v.L {
			if hasFunVal(x) {
				return true
			}
		}
	case ref.KMap:
		for _, kv := range v.M {
			if hasFunVal(kv.V) {
				return true
			}
		}
	case ref.KObj:
		for _, x := range v.O {
			if hasFunVal(x) {
				return true
			}
		}
	case ref.KMaybe:
		return v.P != nil && hasFunVal(v.P)
	}
	return false
}

func safeStr(v *val.Val) (s string) {
	defer func() {
		if r := recover(); r != nil {
			s = fmt.Sprintf("<unprintable: %v>", r)
		}
	}()
	if v == nil {
		return "<nil>"
	}
	return v.String()
}

// simple host environment (built-in programs through yae.Debug)
func c19Env(g *ref.Gen) (*bridge.Env, map[string]interface{}) {
	env := bridge.NewEnv()
	host := map[string]interface{}{}
	put := func(n string, v *ref.V, h interface{}) {
		env.Put(n, v)
		host[n] = h
	}
	num := func() float64 { return []float64{0, 1, 2, 3, -1, 0.5, 42, 1e6, 255}[g.R.Intn(9)] }
	str := func() string {
		return []string{"", "a", "abc", "晓明", "😀x", "q\"uote", "two\nlines", "tab\t"}[g.R.Intn(8)]
	}
	n1, n2 := num(), num()
	put("n", ref.VNum(n1), n1)
	put("k", ref.VNum(n2), n2)
	put("名", ref.VNum(7), 7.0)
	s1 := str()
	put("s", ref.VStr(s1), s1)
	put("晓明", ref.VStr("非"), "非")
	bv := g.R.Intn(2) == 0
	put("b", ref.VBool(bv), bv)
	xs := []float64{num(), num(), num()}
	put("xs", ref.VList(ref.TNum, ref.VNum(xs[0]), ref.VNum(xs[1]), ref.VNum(xs[2])), xs)
	ss := []string{str(), str()}
	put("ss", ref.VList(ref.TStr, ref.VStr(ss[0]), ref.VStr(ss[1])), ss)
	m := map[string]float64{"a": num(), "b": num()}
	put("m", ref.VMap(ref.TStr, ref.TNum, ref.KV{K: ref.VStr("a"), V: ref.VNum(m["a"])}, ref.KV{K: ref.VStr("b"), V: ref.VNum(m["b"])}), m)
	tm := time.Unix(1655296245, 0)
	put("t", ref.VTime(tm), tm)
	// a value whose rendering spans several lines (field names with line breaks)
	mlT := ref.TObj(ref.F("p\nq", ref.TNum), ref.F("r", ref.TStr))
	st := reflect.StructOf([]reflect.StructField{
		{Name: "P", Type: reflect.TypeOf(float64(0)), Tag: `yae:"p\nq"`},
		{Name: "R", Type: reflect.TypeOf(""), Tag: `yae:"r"`}})
	hv := reflect.New(st).Elem()
	hv.Field(0).SetFloat(n1)
	hv.Field(1).SetString(s1)
	put("ml", ref.VObj(mlT, ref.VNum(n1), ref.VStr(s1)), hv.Interface())
	return env, host
}

func runC19(c *run.Ctx) {
	user := ref.UserFuns()
	opt := ref.GenOpt{MaxDepth: 5, PFail: 0.08, PSugar: 0.8, PBoundary: 0.2, PGroup: 0.08, UserFuns: true}
	n := c.Pick(3000, 250000)
	for i := 0; i < n; i++ {
		if !c.Mine(i) {
			continue
		}
		id := fmt.Sprintf("dbg/%d", i)
		c.Case(id, func() {
			r := c.Rng("dbg", i)
			withUser := i%2 == 0
			var us []*ref.Fun
			o := opt
			if withUser {
				us = user
			} else {
				o.UserFuns = false
			}
			g := &ref.Gen{R: r, FT: funTable(us), Opt: o, Loc: time.Local}
			env, host := c19Env(g)
			g.EnvT, g.Vars = env.T, env.Names
			if withUser {
				// also the richer standard environment (objects, nested data)
				g2, env2 := stdGen(c, "dbgstd", i, o, us)
				if r.Intn(2) == 0 {
					g, env, host = g2, env2, nil
				}
			}
			e := g.Expr(g.Type(1), 1+r.Intn(o.MaxDepth))
			checkDebug(c, id, e, env, us, host)
			if i%499 == 0 {
				src, _ := ref.RenderCols(e)
				_, _, rep, _, _ := debugRun(bridge.NewSession(us), src, env, false)
				c.Sample(map[string]string{"source": src, "report": rep})
			}
		})
	}
	// multi-line values next to other recorded values
	ml := func() *ref.E { return ref.Ident("ml") }
	mlCases := []*ref.E{
		ml(), ref.Subscript(ref.List(ml(), ml()), ref.Ident("n")), ref.Call("string", ml()),
		ref.CallF(ref.FInfix, "+", ref.Call("string", ml()), ref.Ident("s")),
		ref.CallF(ref.FInfix, "+", ref.Ident("s"), ref.Call("string", ml())),
		ref.Call("if", ref.Ident("b"), ml(), ml()), ref.Member(ml(), "r"),
		ref.CallF(ref.FInfix, "==", ref.List(ml()), ref.List(ref.Call("if", ref.Ident("b"), ml(), ml()))),
		ref.CallF(ref.FInfix, "+", ref.CallF(ref.FInfix, "*", ref.Ident("n"), ref.Ident("k")), ref.Call("len", ref.List(ml(), ml(), ml()))),
		ref.CallF(ref.FInfix, "==", ref.Ident("晓明"), ref.Ident("s")),
		ref.CallF(ref.FInfix, "==", ref.CallF(ref.FInfix, "+", ref.Ident("晓明"), ref.Str("日本語")), ref.Member(ml(), "r")),
		ref.CallF(ref.FInfix, "+", ref.Ident("名"), ref.Call("len", ref.Ident("晓明"))),
	}
	for i, e := range mlCases {
		for rep := 0; rep < 4; rep++ {
			if !c.Mine(i*4 + rep) {
				continue
			}
			e, rep := e, rep
			c.Case(fmt.Sprintf("ml/%d/%d", i, rep), func() {
				g := &ref.Gen{R: c.Rng("ml", i*4+rep)}
				env, host := c19Env(g)
				checkDebug(c, fmt.Sprintf("ml/%d", i), e.Clone(), env, nil, host)
			})
		}
	}
	for i, pc := range lazyCases() {
		if !c.Mine(i) {
			continue
		}
		pc := pc
		c.Case("dbg-"+pc.ID, func() { checkDebug(c, pc.ID, pc.E, pc.Env, pc.User, nil) })
	}
	sameSourceDebug(c)
	// long single lines: recorded terms 200..560 columns apart
	for k := 200; k <= 560; k++ {
		if !c.Mine(k) || (c.Tier == "quick" && (k < 236 || k > 276) && (k < 500 || k > 524)) {
			continue
		}
		k := k
		c.Case(fmt.Sprintf("long-line/%d", k), func() {
			g := &ref.Gen{R: c.Rng("longline", k)}
			env, host := c19Env(g)
			pad := strings.Repeat("a", k)
			progs := []*ref.E{
				ref.CallF(ref.FInfix, "+", ref.CallF(ref.FInfix, "+", ref.Ident("s"), ref.Str(pad)), ref.Ident("晓明")),
				ref.CallF(ref.FInfix, "==", ref.Call("len", ref.Str(pad)), ref.CallF(ref.FInfix, "+", ref.Ident("n"), ref.Ident("k"))),
				ref.List(ref.Ident("n"), ref.Call("len", ref.Str(pad[:k/2])), ref.Ident("k"), ref.Call("len", ref.Str(pad[:k/2])), ref.Ident("名")),
			}
			for pi, e := range progs {
				checkDebug(c, fmt.Sprintf("long-line/%d/%d", k, pi), e, env, nil, host)
			}
		})
	}
	for i, pc := range permCases() {
		if !c.Mine(i) || (c.Tier == "quick" && i%2 != 0) {
			continue
		}
		pc := pc
		c.Case("dbg-"+pc.ID, func() { checkDebug(c, pc.ID, pc.E, pc.Env, pc.User, nil) })
	}
}

// sameSourceDebug: one process debugs the same source text over environments
// that differ only in nested types (and over identical ones): each call must
// still agree with normal evaluation of the same source over the same data.
func sameSourceDebug(c *run.Ctx) {
	type O1 struct {
		F float64 `yae:"f"`
	}
	type O2 struct {
		F string `yae:"f"`
	}
	type O3 struct {
		F []float64 `yae:"f"`
	}
	type O4 struct {
		F interface{} `yae:"f"`
	}
	variants := []map[string]interface{}{
		{"xs": []float64{1, 2}, "m": map[string]float64{"a": 1}, "o": O1{3}, "b": true},
		{"xs": []string{"p", "q"}, "m": map[string]string{"a": "x"}, "o": O2{"y"}, "b": true},
		{"xs": []bool{true, false}, "m": map[string][]float64{"a": {1}}, "o": O3{[]float64{4}}, "b": false},
		{"xs": [][]float64{{1}, {2, 3}}, "m": map[string]bool{"a": true}, "o": O1{5}, "b": false},
		{"xs": []map[string]float64{{"k": 1}, {}}, "m": map[string]map[string]string{"a": {"k": "v"}}, "o": O2{""}, "b": true},
		{"xs": []float64{7, 8}, "m": map[string]float64{"a": 9}, "o": O1{10}, "b": false},
		// identical Go types, other dynamic types inside
		{"xs": []interface{}{1.0, 2.0}, "m": map[string]interface{}{"a": 1.0}, "o": O4{3.0}, "b": true},
		{"xs": []interface{}{"p", "p"}, "m": map[string]interface{}{"a": "x"}, "o": O4{"y"}, "b": true},
		{"xs": []interface{}{[]float64{1}, []float64{2, 3}}, "m": map[string]interface{}{"a": []string{"s"}}, "o": O4{[]interface{}{true}}, "b": false},
		{"xs": []interface{}{4.0, 5.0}, "m": map[string]interface{}{"a": 6.0}, "o": O4{7.0}, "b": false},
	}
	sources := []string{
		"len(xs)", "xs[0]", "xs[1] == xs[0]", "string(xs)", "if(b, xs[0], xs[1])", "xs == xs", "[xs, xs][1]",
		"len(m)", "m[\"a\"]", "string(m)", "m == m", "o.f", "string(o)", "o.f == o.f", "[o.f, xs[0]]", "{\"k\": xs}[\"k\"]",
		"if(b, o.f, m[\"a\"])", "string(xs[0]) + string(o.f)",
	}
	for si, src := range sources {
		for rot := range variants {
			if !c.Mine(si*len(variants) + rot) {
				continue
			}
			src, rot := src, rot
			c.Case(fmt.Sprintf("same-source/%d/%d", si, rot), func() {
				c.Input(src)
				for k := range variants {
					env := variants[(k+rot)%len(variants)]
					ev, eerr := yae.Eval(src, env)
					var dv *val.Val
					var rep string
					var derr error
					if p := func() (p string) {
						defer func() {
							if r := recover(); r != nil {
								p = fmt.Sprint(r)
							}
						}()
						dv, rep, derr = yae.Debug(src, env)
						return ""
					}(); p != "" {
						c.Violation("debug-facade", fmt.Sprintf("yae.Debug panics: %s :: %s over %v", p, src, env), nil)
						return
					}
					c.Count("debug_runs", 1)
					c.Count("facade_debug_runs", 1)
					what := fmt.Sprintf("%s over %v (call %d of this source in the process)", src, env, k+1)
					if (eerr == nil) != (derr == nil) {
						c.Violation("debug-result", fmt.Sprintf("yae.Debug err=%v, yae.Eval err=%v :: %s", derr, eerr, what), nil)
						return
					}
					if eerr != nil {
						continue
					}
					if safeStr(dv) != safeStr(ev) || dv.Type.String() != ev.Type.String() {
						c.Violation("debug-result", fmt.Sprintf("yae.Debug yields %s, yae.Eval yields %s :: %s", safeStr(dv), safeStr(ev), what), nil)
						return
					}
					lines := strings.Split(rep, "\n")
					if len(lines) == 0 || lines[0] != src {
						c.Violation("debug-render", fmt.Sprintf("the report does not start with the source :: %s", what), map[string]string{"report": rep})
						return
					}
					if src[0] != '[' && src[0] != '{' && !strings.Contains(safeStr(dv), "\n") && !strings.Contains(rep, safeStr(dv)) { // literals are not recorded
						c.Violation("debug-render", fmt.Sprintf("the report does not show the final value %s :: %s", safeStr(dv), what), map[string]string{"report": rep})
						return
					}
					c.Distinct(fmt.Sprintf("%s/%d", src, (k+rot)%len(variants)))
				}
			})
		}
	}
}

func init() {
	run.Register(&run.Spec{
		ID: "C19", Run: runC19, Level: "exploration",
		Rule: "generated single-line programs (80% sugared; ASCII, CJK and emoji identifiers and strings; values that render on several lines; 8% failing sub-terms; unevaluated lazy branches) with and without harness functions, the laziness families and the field-permutation families, run through closure.DebugCompile with a fresh record, with a record that already served one evaluation, or after the compiled closure served another record (hook: entries) and, for built-in-only programs over host data, through yae.Debug; " +
			"monitor: result / failure equals normal evaluation (reference evaluator, vm, closure); recorded entries == the reference evaluator's log of (value, column) for every identifier, call, member and subscript actually evaluated, in evaluation order, columns from the harness's own rendering (identifier start; operator, '?' or '(' of a call; '['; '.'); report: never fails, first line is the source, every recorded value appears at its column (multi-line values on consecutive lines); yae.Debug report == report of the same record; single lines of 200..560 columns with recorded terms on both sides of every multiple of 256; 18 sources debugged repeatedly in one process through yae.Debug over 10 host environments that differ only in nested types (typed containers, and interface-typed containers of identical Go type) (every rotation): each call agrees with yae.Eval of the same source over the same data. distinct = distinct source",
		Assume:    []string{"lazy host functions that force one thunk twice are excluded (a second record of one term has no column of its own)"},
		MinEvents: 1000, EventKey: "debug_runs",
	})
}
