package props

import (
	"fmt"
	"time"

	"github.com/goghcrow/yae/types"
	"github.com/goghcrow/yae/val"

	"verif/harness/bridge"
	"verif/harness/ref"
	"verif/harness/run"
)

// oracle inspects one observation on behalf of one property.
type oracle func(c *run.Ctx, o *ProgObs)

// stream runs n generated programs through RunProg and the oracle.
func stream(c *run.Ctx, name string, n int, opt ref.GenOpt, user []*ref.Fun, mutate float64, or oracle) {
	for i := 0; i < n; i++ {
		if !c.Mine(i) {
			continue
		}
		id := fmt.Sprintf("%s/%d", name, i)
		c.Case(id, func() {
			user := user
			if len(user) > 0 && i%5 == 1 {
				user = append(append([]*ref.Fun(nil), user...), ref.NotOverride())
			}
			g, env := stdGen(c, name, i, opt, user)
			us := user
			if len(us) > 0 && g.R.Intn(2) == 0 {
				// a different registration order of the harness overloads
				us = append([]*ref.Fun(nil), user...)
				g.R.Shuffle(len(us), func(a, b int) { us[a], us[b] = us[b], us[a] })
				g.FT = funTable(us)
			}
			t := g.Type(2)
			e := g.Expr(t, 1+g.R.Intn(opt.MaxDepth))
			if g.R.Float64() < mutate {
				e = g.Mutate(e)
				if g.R.Intn(4) == 0 {
					e = g.Mutate(e)
				}
			}
			if !ref.Renderable(e) {
				c.Count("unrenderable_mutants_skipped", 1)
				return
			}
			pc := &ProgCase{ID: id, Src: ref.Render(e), E: e, Env: env, User: us, SameEnvObject: i%6 == 0}
			c.Input(pc.Src)
			var more []*bridge.Env
			if i%3 == 0 {
				// the same compiled code on further conforming environments:
				// other values, other object layouts
				for k := 1; k <= 2; k++ {
					_, env2 := stdGen(c, name+"/env", i*4+k, opt, us)
					more = append(more, env2)
				}
			}
			all := RunProgMulti(pc, more)
			o := all[0]
			for _, o2 := range all[1:] {
				c.Count("further_environments", 1)
				or(c, o2)
			}
			if o.Accepted() && nontrivial(e) {
				c.Distinct(progKey(pc.Src))
			}
			if o.Accepted() {
				c.Count("accepted", 1)
			} else {
				c.Count("rejected", 1)
			}
			or(c, o)
			if i%1499 == 0 {
				c.Sample(map[string]interface{}{"src": pc.Src, "reference": o.witness()["reference"], "vm": o.Back[0].describe()})
			}
		})
	}
}

func fixedCases(c *run.Ctx, cases []*ProgCase, or oracle) {
	for i, pc := range cases {
		if !c.Mine(i) || pc == nil {
			continue
		}
		pc := pc
		c.Case(pc.ID, func() {
			c.Input(short(pc.Src))
			o := RunProg(pc)
			c.Distinct(pc.ID)
			if o.Accepted() {
				c.Count("accepted", 1)
			}
			or(c, o)
		})
	}
}

func eachBack(o *ProgObs, f func(name string, b *BackObs)) {
	for i, b := range o.Back {
		if b != nil && b.CompErr == nil && b.Skipped == "" && b.Res.Class != bridge.OLimit {
			f(bridge.Backend(i).String(), b)
		}
	}
}

// ---------------------------------------------------------------- C01

func oracleC01(c *run.Ctx, o *ProgObs) {
	eachBack(o, func(name string, b *BackObs) {
		c.Count("values_walked", 1)
		if b.TypeErr != nil {
			c.Violation("inferred-type-unreadable", fmt.Sprintf("%s: %v :: %s", name, b.TypeErr, short(o.Case.Src)), o.witness())
		}
		if b.Res.Class == bridge.OValue && b.Ill != nil {
			c.Violation("ill-typed-value", fmt.Sprintf("%s returned a value that does not have the inferred type %s: %v :: %s", name, tyCanon(b.Type), b.Ill, short(o.Case.Src)), o.witness())
		}
		for _, he := range b.Res.Obs.HostErrs {
			c.Violation("ill-typed-host-argument", fmt.Sprintf("%s handed an ill-formed value to a host function: %s :: %s", name, he, short(o.Case.Src)), o.witness())
		}
	})
}

// permCases: structurally equal objects with every field order, side by side.
func permCases() []*ProgCase {
	var out []*ProgCase
	env := bridge.NewEnv()
	env.Put("flag", ref.VBool(false))
	env.Put("i", ref.VNum(1))
	fields := []string{"a", "b", "c", "d"}
	vals := map[string]func(k int) *ref.E{
		"a": func(k int) *ref.E { return ref.Num(fmt.Sprint(k), float64(k)) },
		"b": func(k int) *ref.E { return ref.Str(fmt.Sprintf("s%d", k)) },
		"c": func(k int) *ref.E { return ref.Bool(k%2 == 0) },
		"d": func(k int) *ref.E { return ref.List(ref.Num(fmt.Sprint(k), float64(k))) },
	}
	var perms func(xs []string) [][]string
	perms = func(xs []string) [][]string {
		if len(xs) <= 1 {
			return [][]string{append([]string(nil), xs...)}
		}
		var r [][]string
		for i := range xs {
			rest := append(append([]string(nil), xs[:i]...), xs[i+1:]...)
			for _, p := range perms(rest) {
				r = append(r, append([]string{xs[i]}, p...))
			}
		}
		return r
	}
	lit := func(order []string, k int) *ref.E {
		vs := make([]*ref.E, len(order))
		for i, f := range order {
			vs[i] = vals[f](k)
		}
		return ref.Obj(append([]string(nil), order...), vs)
	}
	for n := 2; n <= 4; n++ {
		ps := perms(fields[:n])
		for pi, p := range ps {
			for qi, q := range ps {
				if n == 4 && (pi+qi)%5 != 0 {
					continue // sample of the 576 pairs at four fields
				}
				for _, f := range fields[:n] {
					id := fmt.Sprintf("perm/%d/%d-%d/%s", n, pi, qi, f)
					add := func(kind string, e *ref.E) {
						out = append(out, &ProgCase{ID: id + "/" + kind, Src: ref.Render(e), E: e, Env: env, User: ref.UserFuns()})
					}
					add("list", ref.Member(ref.Subscript(ref.List(lit(p, 1), lit(q, 2)), ref.Ident("i")), f))
					add("if", ref.Member(ref.Call("if", ref.Ident("flag"), lit(p, 1), lit(q, 2)), f))
					add("ternary", ref.Member(ref.CallF(ref.FTernary, "if", ref.Ident("flag"), lit(p, 1), lit(q, 2)), f))
					add("map", ref.Member(ref.Subscript(ref.Map([]*ref.E{ref.Str("x"), ref.Str("y")}, []*ref.E{lit(p, 1), lit(q, 2)}), ref.Str("y")), f))
					add("get", ref.Member(ref.Call("get", ref.List(lit(p, 1)), ref.Num("5", 5), lit(q, 2)), f))
					add("union", ref.Member(ref.Subscript(ref.Call("union", ref.List(lit(p, 1)), ref.List(lit(q, 2))), ref.Ident("i")), f))
					add("user-lazy", ref.Member(ref.Call("lzIf", ref.Ident("flag"), lit(p, 1), lit(q, 2)), f))
					add("pair", ref.Member(ref.Subscript(ref.Call("pair", lit(p, 1), lit(q, 2)), ref.Ident("i")), f))
					add("nested", ref.Member(ref.Member(ref.Subscript(ref.List(ref.Obj([]string{"in"}, []*ref.E{lit(p, 1)}), ref.Obj([]string{"in"}, []*ref.E{lit(q, 2)})), ref.Ident("i")), "in"), f))
				}
			}
		}
	}
	return out
}

// sharedNodeCases: one variable (hence one type node) used for two fields of
// the first element; the second element agrees on the first field only. The
// programs are ill-typed; if the checker lets one through, the walker sees a
// value of the wrong type.
func sharedNodeCases() []*ProgCase {
	var out []*ProgCase
	env := bridge.NewEnv()
	env.Put("xs", ref.VList(ref.TNum, ref.VNum(1), ref.VNum(2)))
	env.Put("m", ref.VMap(ref.TStr, ref.TNum, ref.KV{K: ref.VStr("k"), V: ref.VNum(1)}))
	env.Put("o", ref.VObj(ref.TObj(ref.F("x", ref.TNum)), ref.VNum(1)))
	env.Put("flag", ref.VBool(false))
	env.Put("i", ref.VNum(1))
	n1, s1 := ref.Num("1", 1), ref.Str("s")
	type sh struct {
		v          string
		same, diff *ref.E
		access     func(e *ref.E) *ref.E
	}
	shapes := []sh{
		{"xs", ref.List(n1), ref.List(s1), func(e *ref.E) *ref.E { return ref.Subscript(e, ref.Num("0", 0)) }},
		{"m", ref.Map([]*ref.E{ref.Str("k")}, []*ref.E{n1}), ref.Map([]*ref.E{ref.Str("k")}, []*ref.E{s1}), func(e *ref.E) *ref.E { return ref.Subscript(e, ref.Str("k")) }},
		{"o", ref.Obj([]string{"x"}, []*ref.E{n1}), ref.Obj([]string{"x"}, []*ref.E{s1}), func(e *ref.E) *ref.E { return ref.Member(e, "x") }},
	}
	for si, s := range shapes {
		first := func() *ref.E { return ref.Obj([]string{"a", "b"}, []*ref.E{ref.Ident(s.v), ref.Ident(s.v)}) }
		second := func() *ref.E { return ref.Obj([]string{"a", "b"}, []*ref.E{s.same.Clone(), s.diff.Clone()}) }
		secondRev := func() *ref.E { return ref.Obj([]string{"b", "a"}, []*ref.E{s.diff.Clone(), s.same.Clone()}) }
		progs := []*ref.E{
			s.access(ref.Member(ref.Subscript(ref.List(first(), second()), ref.Ident("i")), "b")),
			s.access(ref.Member(ref.Subscript(ref.List(first(), secondRev()), ref.Ident("i")), "b")),
			s.access(ref.Member(ref.Call("if", ref.Ident("flag"), first(), second()), "b")),
			s.access(ref.Member(ref.Subscript(ref.Map([]*ref.E{ref.Str("p"), ref.Str("q")}, []*ref.E{first(), second()}), ref.Str("q")), "b")),
			s.access(ref.Member(ref.Call("get", ref.List(first()), ref.Num("7", 7), second()), "b")),
			s.access(ref.Subscript(ref.Subscript(ref.List(ref.List(ref.Ident(s.v), ref.Ident(s.v)), ref.List(s.same.Clone(), s.diff.Clone())), ref.Ident("i")), ref.Ident("i"))),
			s.access(ref.Subscript(ref.Call("fst", ref.List(ref.Ident(s.v), ref.Ident(s.v)), ref.Num("0", 0)), ref.Ident("i"))),
		}
		for pi, e := range progs {
			out = append(out, &ProgCase{ID: fmt.Sprintf("shared-node/%d/%d", si, pi), Src: ref.Render(e), E: e, Env: env, User: ref.UserFuns()})
		}
	}
	return out
}

// dupRegistrationCases: a polymorphic overload set whose members return
// different types, with one function value registered twice.
func dupRegistrationCases() []*ProgCase {
	a, k, v := ref.TVar("a"), ref.TVar("k"), ref.TVar("v")
	mk := func(ps []*ref.Ty, r *ref.Ty, out *ref.V) *ref.Fun {
		return &ref.Fun{Name: "pk", Params: ps, Ret: r, User: "pk", Impl: func(*ref.Evaluator, *ref.Ty, []ref.Arg) *ref.V { return out }}
	}
	f1 := mk([]*ref.Ty{ref.TList(a)}, ref.TNum, ref.VNum(1))
	f2 := mk([]*ref.Ty{ref.TMap(k, v)}, ref.TBool, ref.VBool(true))
	f3 := mk([]*ref.Ty{ref.TMaybe(a)}, ref.TTime, ref.VTime(unixZero))
	f4 := mk([]*ref.Ty{ref.TObj(ref.F("x", a))}, ref.TList(ref.TNum), ref.VList(ref.TNum, ref.VNum(4)))
	f5 := mk([]*ref.Ty{a}, ref.TStr, ref.VStr("any"))
	env := bridge.NewEnv()
	env.Put("o", ref.VObj(ref.TObj(ref.F("x", ref.TNum)), ref.VNum(1)))
	env.Put("on", ref.VJust(ref.TNum, ref.VNum(2)))
	n1 := ref.Num("1", 1)
	progs := []*ref.E{
		ref.Call("pk", ref.List(n1)), ref.Call("pk", ref.Map([]*ref.E{n1}, []*ref.E{n1.Clone()})), ref.Call("pk", ref.Ident("on")),
		ref.Call("pk", ref.Ident("o")), ref.Call("pk", n1.Clone()), ref.Call("pk", ref.Obj([]string{"x"}, []*ref.E{ref.Str("s")})),
		ref.List(ref.Call("pk", ref.Ident("o")), ref.List(n1.Clone())), ref.CallF(ref.FInfix, "+", ref.Call("pk", ref.Str("s")), ref.Call("pk", n1.Clone())),
	}
	orders := [][]*ref.Fun{
		{f1, f2, f3, f4, f5}, {f1, f1, f2, f3, f4, f5}, {f1, f2, f2, f3, f4, f5}, {f2, f1, f2, f1, f3, f3, f4, f5}, {f3, f4, f4, f1, f2, f5, f5},
	}
	var out []*ProgCase
	for oi, ord := range orders {
		for pi, p := range progs {
			e := p.Clone()
			out = append(out, &ProgCase{ID: fmt.Sprintf("dup-registration/%d/%d", oi, pi), Src: ref.Render(e), E: e, Env: env, User: ord})
		}
	}
	return out
}

func init() {
	run.Register(&run.Spec{
		ID: "C01", Run: func(c *run.Ctx) {
			both01 := func(c *run.Ctx, o *ProgObs) { oracleC01(c, o); oracleC05(c, o) }
			fixedCases(c, sharedNodeCases(), both01)
			fixedCases(c, dupRegistrationCases(), func(c *run.Ctx, o *ProgObs) { oracleC01(c, o); oracleC05(c, o); oracleC04(c, o) })
			fixedCases(c, confusableCases(), func(c *run.Ctx, o *ProgObs) { oracleC01(c, o); oracleC04(c, o) })
			user := ref.UserFuns()
			opt := ref.GenOpt{MaxDepth: 5, PFail: 0.02, PSugar: 0.6, PBoundary: 0.1, PGroup: 0.03, UserFuns: true}
			stream(c, "mixed", c.Pick(5000, 120000), opt, user, 0, oracleC01)
			// type-breaking mutants that the real checker nevertheless accepts
			stream(c, "mutant", c.Pick(5000, 120000), opt, user, 1.0, oracleC01)
			fixedCases(c, permCases(), oracleC01)
			hostDataC01(c)
		},
		Level: "exploration",
		Rule: "type-directed programs and type-breaking mutants (only those the real checker accepts are executed) over environments whose values carry permuted object-field layouts; " +
			"string literals whose text is a rendering of a time / number / boolean literal of the same program; all field-order permutations (2-4 fields) of structurally equal objects side by side in list / if / ?: / map / get / union / lazy host call / nested; host data through conv with interface-typed parts; " +
			"monitor = deep walk of every returned value and of every value handed to a host function against the checker's OWN inferred type (nil, type of each component vs. the container's declared component type, map-key tags, object slot counts), on 4 back ends of the plain pipeline plus 2 long-lived public engines, also under -race (checkptr). distinct = distinct accepted source",
		Assume: []string{"types.Equals is cross-checked against the reference equality on every walked node"},
		Builds: []string{"race", "asan"}, SanFrac: 8,
		MinEvents: 2000, EventKey: "values_walked",
	})
}

// ---------------------------------------------------------------- C02

func oracleC02(c *run.Ctx, o *ProgObs) {
	eachBack(o, func(name string, b *BackObs) {
		c.Count("executions_classified", 1)
		if b.Res.Class == bridge.OInternal {
			c.Violation("internal-fault", fmt.Sprintf("%s stopped with an internal fault: %s :: %s", name, b.Res.Msg, short(o.Case.Src)), o.witness())
			return
		}
		if o.Case.E == nil || o.RefErr != nil || o.RefOut.Silent != nil {
			return
		}
		if o.RefOut.Fail != nil {
			want := failClassOf(o.RefOut.Fail)
			if b.Res.Class != want {
				c.Violation("wrong-failure", fmt.Sprintf("%s ended %s (%s) where the semantics says the operation is undefined (%s) :: %s", name, b.Res.Class, b.Res.Msg, want, short(o.Case.Src)), o.witness())
			}
			return
		}
		if b.Res.Class != bridge.OValue {
			c.Violation("spurious-failure", fmt.Sprintf("%s failed (%s: %s) where the semantics defines a value %s :: %s", name, b.Res.Class, b.Res.Msg, ref.Dump(o.RefOut.V), short(o.Case.Src)), o.witness())
		}
	})
	// an accepted program must also survive code generation (except the VM's
	// documented capacity refusal, judged by C03)
	for i, b := range o.Back {
		if b != nil && b.CompErr != nil && b.CompErr.Stage == "codegen" && b.CompErr.Msg != "overflow" {
			c.Violation("internal-fault", fmt.Sprintf("%s code generation failed on an accepted program: %s :: %s", bridge.Backend(i), b.CompErr.Msg, short(o.Case.Src)), o.witness())
		}
	}
}

// boundaryCases: every partial / total list, map, modulo and regex operation
// with every boundary operand.
func boundaryCases() []*ProgCase {
	var out []*ProgCase
	env := bridge.NewEnv()
	env.Put("xs", ref.VList(ref.TNum, ref.VNum(10), ref.VNum(20), ref.VNum(30)))
	env.Put("e", ref.VList(ref.TNum))
	env.Put("m", ref.VMap(ref.TNum, ref.TStr, ref.KV{K: ref.VNum(1), V: ref.VStr("one")}, ref.KV{K: ref.VNum(0.5), V: ref.VStr("half")}))
	env.Put("ms", ref.VMap(ref.TStr, ref.TNum, ref.KV{K: ref.VStr("a"), V: ref.VNum(1)}))
	env.Put("em", ref.VMap(ref.TStr, ref.TNum))
	// host strings that are not valid UTF-8 / not valid patterns
	for i, bad := range []string{"\xff", "a\xffb", "\xc3\x28", "ab\xe2\x82", "(", "a[", "*a", "a{2,1}", "\\"} {
		env.Put(fmt.Sprintf("bad%d", i), ref.VStr(bad))
	}
	n := func(s string) *ref.E { return ref.Num(s, ref.LitValue(s)) }
	neg := func(e *ref.E) *ref.E { return ref.CallF(ref.FPrefix, "-", e) }
	div := func(a, b *ref.E) *ref.E { return ref.CallF(ref.FInfix, "/", a, b) }
	idx := map[string]*ref.E{
		"0": n("0"), "1": n("1"), "2": n("2"), "3": n("3"), "4": n("4"), "-1": neg(n("1")), "-0": neg(n("0")), "-0.5": neg(n("0.5")), "0.5": n("0.5"),
		"2.9": n("2.9"), "3.0000000001": n("3.0000000001"), "2.9999999999": n("2.9999999999"), "1e30": n("1e30"), "-1e30": neg(n("1e30")),
		"nan": div(n("0"), n("0")), "inf": div(n("1"), n("0")), "-inf": div(neg(n("1")), n("0")), "2^63": n("9223372036854775808"),
		"2^31": n("2147483648"), "2^32": n("4294967296"), "-2^63": neg(n("9223372036854775808")), "5e-324": n("5e-324"),
	}
	i := 0
	add := func(id string, e *ref.E) {
		i++
		out = append(out, &ProgCase{ID: "bound/" + id, Src: ref.Render(e), E: e, Env: env})
	}
	for bi := 0; bi < 9; bi++ {
		b := func() *ref.E { return ref.Ident(fmt.Sprintf("bad%d", bi)) }
		add(fmt.Sprintf("match/pattern/%d", bi), ref.Call("match", b(), ref.Str("xab\u00e9")))
		add(fmt.Sprintf("match/pattern-self/%d", bi), ref.Call("match", b(), b()))
		add(fmt.Sprintf("match/subject/%d", bi), ref.Call("match", ref.Str("a"), b()))
		add(fmt.Sprintf("match/guarded/%d", bi), ref.Call("if", ref.Bool(false), ref.Call("match", b(), ref.Str("x")), ref.Bool(true)))
	}
	for k, ix := range idx {
		for _, base := range []string{"xs", "e"} {
			add("sub/"+base+"/"+k, ref.Subscript(ref.Ident(base), ix))
			add("get/"+base+"/"+k, ref.Call("get", ref.Ident(base), ix, n("7")))
			add("getm/"+base+"/"+k, ref.CallF(ref.FMethod, "get", ref.Ident(base), ix, n("7")))
		}
		add("litsub/"+k, ref.Subscript(ref.List(n("1"), n("2")), ix))
		add("mapsub/"+k, ref.Subscript(ref.Ident("m"), ix))
		add("mapget/"+k, ref.Call("get", ref.Ident("m"), ix, ref.Str("dflt")))
		add("isset/"+k, ref.Call("isset", ref.Ident("m"), ix))
		for k2, iy := range idx {
			if len(k)+len(k2) > 6 && (len(k)*7+len(k2))%3 != 0 {
				continue
			}
			add("mod/"+k+"/"+k2, ref.CallF(ref.FInfix, "%", ix, iy))
		}
	}
	for _, s := range []string{"a", "", "zz", "A"} {
		add("strsub/"+s, ref.Subscript(ref.Ident("ms"), ref.Str(s)))
		add("strsub-empty/"+s, ref.Subscript(ref.Ident("em"), ref.Str(s)))
		add("strget/"+s, ref.Call("get", ref.Ident("ms"), ref.Str(s), n("0")))
	}
	for _, p := range []string{"(", "[", "a{2,1}", "\\", "*", "a**", "(?P<n", "", "a", "^a$", "[[:alpha:]]+", "\\pL", "(?i)A", "a{1000}", "a{1001}"} {
		add("match/"+p, ref.Call("match", ref.Str(p), ref.Str("aaa")))
	}
	// get-with-default over lists produced by the set functions (their backing
	// arrays are larger than their lengths)
	for la := 0; la <= 5; la++ {
		for lb := 0; lb <= 4; lb++ {
			if la+lb == 0 {
				continue
			}
			as, bs := make([]*ref.E, la), make([]*ref.E, lb)
			for q := range as {
				as[q] = n(fmt.Sprint(q))
			}
			for q := range bs {
				bs[q] = n(fmt.Sprint(100 + q))
			}
			var A, B *ref.E = ref.Ident("e"), ref.Ident("e")
			if la > 0 {
				A = ref.List(as...)
			}
			if lb > 0 {
				B = ref.List(bs...)
			}
			for ix := 0; ix <= la+lb+8; ix++ {
				add(fmt.Sprintf("get-union/%d/%d/%d", la, lb, ix), ref.Call("get", ref.Call("union", A.Clone(), B.Clone()), n(fmt.Sprint(ix)), neg(n("1"))))
				if ix%3 == 0 {
					add(fmt.Sprintf("get-diff/%d/%d/%d", la, lb, ix), ref.Call("get", ref.Call("diff", ref.Call("union", A.Clone(), B.Clone()), ref.List(n("0"))), n(fmt.Sprint(ix)), neg(n("1"))))
					add(fmt.Sprintf("sub-union/%d/%d/%d", la, lb, ix), ref.Subscript(ref.Call("union", A.Clone(), B.Clone()), n(fmt.Sprint(ix))))
				}
			}
		}
	}
	add("max-empty", ref.Call("max", ref.Ident("e")))
	add("min-empty", ref.Call("min", ref.Ident("e")))
	add("len-empty", ref.Call("len", ref.List()))
	add("len-emptymap", ref.Call("len", ref.Map(nil, nil)))
	add("eq-empty", ref.CallF(ref.FInfix, "==", ref.List(), ref.List()))
	add("string-empty", ref.Call("string", ref.List()))
	add("string-emptymap", ref.Call("string", ref.Map(nil, nil)))
	add("string-emptyobj", ref.Call("string", ref.Obj(nil, nil)))
	add("bot-sub", ref.Subscript(ref.List(), n("0")))
	add("bot-mapsub", ref.Subscript(ref.Map(nil, nil), ref.Subscript(ref.List(), n("0"))))
	add("union-empty", ref.Call("union", ref.Ident("e"), ref.Ident("e")))
	add("diff-self", ref.Call("diff", ref.Ident("xs"), ref.Ident("xs")))
	return out
}

func init() {
	run.Register(&run.Spec{
		ID: "C02", Run: func(c *run.Ctx) {
			user := ref.UserFuns()
			opt := ref.GenOpt{MaxDepth: 5, PFail: 0.12, PSugar: 0.6, PBoundary: 0.5, PGroup: 0.03, UserFuns: true}
			stream(c, "mixed", c.Pick(7000, 200000), opt, user, 0, oracleC02)
			stream(c, "mutant", c.Pick(2000, 50000), opt, user, 1.0, oracleC02)
			fixedCases(c, boundaryCases(), oracleC02)
			fixedCases(c, wideCases(), oracleC02)
			fixedCases(c, lazyCases(), oracleC02)
			fixedCases(c, wideThunkCases(), oracleC02)
			fixedCases(c, fullStackCallCases(), oracleC02)
		},
		Level: "exploration",
		Rule: "type-directed programs with deliberate partial-operation failures and boundary operands (negative, fractional, huge, NaN, ±Inf indices; missing keys; zero / fractional / out-of-int64 moduli; invalid patterns; empty containers) in every operand position, " +
			"accepted mutants, and size families crossing the VM's 42-slot stack, 8-bit and 16-bit operand ranges (40..1100 members / depth, 254..256 arguments, branches > 255 bytes); " +
			"monitor = outcome classifier (VALUE | INDEX | KEY | MOD0 | REGEX | INTERNAL | process death) against the reference evaluator's prediction, on 4 back ends of the plain pipeline plus 2 long-lived public engines, whole quick workload also under -race/checkptr. distinct = distinct accepted source or fixed case id",
		Assume: []string{"the reference evaluator encodes the documented partial operations (DESIGN.md Appendix A)", "% outside the int64 range and strtotime of non-absolute forms are oracle-silent (only INTERNAL / death are checked there)"},
		Builds: []string{"race", "asan"}, SanFrac: 4,
		MinEvents: 2000, EventKey: "executions_classified",
	})
}

// ---------------------------------------------------------------- C04

func oracleC04(c *run.Ctx, o *ProgObs) {
	if o.Case.E == nil || o.RefErr != nil || o.RefOut.Silent != nil || o.RefOut.Fail != nil {
		return
	}
	eachBack(o, func(name string, b *BackObs) {
		if b.Res.Class != bridge.OValue || b.Ill != nil {
			return // C02 / C01 territory
		}
		c.Count("values_compared", 1)
		if !ref.Same(o.RefOut.V, b.RV) {
			c.Violation("wrong-result", fmt.Sprintf("%s computed %s, the documented result is %s :: %s", name, ref.Dump(b.RV), ref.Dump(o.RefOut.V), short(o.Case.Src)), o.witness())
		}
	})
}

func init() {
	run.Register(&run.Spec{
		ID: "C04", Run: runC04, Level: "exploration",
		Rule: "exhaustive application of every documented operator / built-in to tuples from per-type boundary pools (numbers: ±0, tolerance edges 1±0.5e-9..1±2e-9, 2^53±1, 2^63, 1e19, 1e20, 1e308, 5e-324, ±Inf, NaN; strings: empty, ASCII, CJK, emoji, combining marks, quotes, backslashes, control, invalid UTF-8; lists with duplicates / empties / shared sub-values; absolute time forms), then random nested programs; " +
			"monitor = element-by-element comparison (exact float bits, NaN≡NaN) with the reference evaluator, 4 back ends plus 2 long-lived public engines, under TZ=UTC and TZ=Asia/Shanghai. distinct = distinct source+environment",
		Assume:    []string{"reference = IEEE-754 via Go's own + - * / math.Pow/Abs/Ceil/Floor/Round/Max/Min, documented ε=1e-9 comparisons, Go RE2 for match, time.Date for absolute time forms", "relative time forms (now, today) and % outside int64 are excluded"},
		MinEvents: 5000, EventKey: "values_compared",
		WorkerEnv: func(i int) []string {
			if i%2 == 1 {
				return []string{"TZ=Asia/Shanghai"}
			}
			return []string{"TZ=UTC"}
		},
	})
}

// ---------------------------------------------------------------- C05

func oracleC05(c *run.Ctx, o *ProgObs) {
	if o.Case.E == nil {
		return
	}
	for i, b := range o.Back {
		if b == nil {
			continue
		}
		name := bridge.Backend(i).String()
		c.Count("verdicts_compared", 1)
		refAccept := o.RefErr == nil
		if b.CompErr != nil && (b.CompErr.Stage == "lex" || b.CompErr.Stage == "parse") {
			c.Violation("generated-program-does-not-parse", fmt.Sprintf("%s: %s :: %s", name, b.CompErr, short(o.Case.Src)), o.witness())
			continue
		}
		yaeAccept := b.CompErr == nil || b.CompErr.Stage == "codegen"
		if refAccept != yaeAccept {
			if refAccept {
				c.Violation("rejects-well-typed", fmt.Sprintf("%s rejects a well-typed program (%s); reference type %s :: %s", name, b.CompErr, o.RefType.Canon(), short(o.Case.Src)), o.witness())
			} else {
				c.Violation("accepts-ill-typed", fmt.Sprintf("%s accepts an ill-typed program as %s; reference: %v :: %s", name, tyCanon(b.Type), o.RefErr, short(o.Case.Src)), o.witness())
			}
			continue
		}
		if refAccept && b.CompErr == nil {
			if b.TypeErr != nil {
				c.Violation("inferred-type-unreadable", fmt.Sprintf("%s: %v :: %s", name, b.TypeErr, short(o.Case.Src)), o.witness())
			} else if b.Type != nil && !ref.Eq(b.Type, o.RefType) {
				c.Violation("wrong-inferred-type", fmt.Sprintf("%s infers %s, the rules assign %s :: %s", name, b.Type.Canon(), o.RefType.Canon(), short(o.Case.Src)), o.witness())
			}
		}
	}
}

var unixZero = time.Unix(0, 0)

func tyCanon(t *ref.Ty) string {
	if t == nil {
		return "?"
	}
	return t.Canon()
}

// overloadCases: overload sets with object / shared-node / repeated composite
// parameters, every registration order, and the documented typing corner cases.
func overloadCases() []*ProgCase {
	var out []*ProgCase
	env := bridge.NewEnv()
	env.Put("xs", ref.VList(ref.TNum, ref.VNum(1)))
	env.Put("n", ref.VNum(1))
	env.Put("s", ref.VStr("s"))
	oAB := ref.TObj(ref.F("a", ref.TNum), ref.F("b", ref.TStr))
	env.Put("o", ref.VObj(oAB, ref.VNum(1), ref.VStr("x")))
	env.Put("fs", &ref.V{T: ref.TList(ref.TFun([]*ref.Ty{ref.TNum}, ref.TNum))})
	env.Put("f1", &ref.V{T: ref.TFun([]*ref.Ty{ref.TNum, ref.TStr}, ref.TBool), Fn: &ref.Fun{Name: "f1",
		Impl: func(_ *ref.Evaluator, _ *ref.Ty, x []ref.Arg) *ref.V {
			return ref.VBool(x[0].V.N > 0 && x[1].V.S != "")
		}}})
	env.Put("g1", &ref.V{T: ref.TFun([]*ref.Ty{ref.TStr}, ref.TBool)})
	env.Put("g2", &ref.V{T: ref.TFun([]*ref.Ty{ref.TList(ref.TNum)}, ref.TNum)})
	env.Put("g3", &ref.V{T: ref.TFun([]*ref.Ty{ref.TStr, ref.TStr}, ref.TBool)})
	shL, shM := ref.TList(ref.TNum), ref.TMap(ref.TStr, ref.TNum)
	// variables bound to one type object share its node in the type environment
	env.Put("mo", ref.VJust(oAB, ref.VObj(ref.TObj(ref.F("b", ref.TStr), ref.F("a", ref.TNum)), ref.VStr("x"), ref.VNum(1))))
	env.PutTyped("ys", shL, ref.VList(ref.TNum, ref.VNum(5)))
	env.PutTyped("ys2", shL, ref.VList(ref.TNum, ref.VNum(6)))
	env.PutTyped("ms", shM, ref.VMap(ref.TStr, ref.TNum, ref.KV{K: ref.VStr("k"), V: ref.VNum(1)}))
	a, b, k := ref.TVar("a"), ref.TVar("b"), ref.TVar("k")
	konst := func(s string) func(*ref.Evaluator, *ref.Ty, []ref.Arg) *ref.V {
		return func(*ref.Evaluator, *ref.Ty, []ref.Arg) *ref.V { return ref.VStr(s) }
	}
	mk := func(name string, ps []*ref.Ty, r *ref.Ty, tag string) *ref.Fun {
		return &ref.Fun{Name: name, Params: ps, Ret: r, User: name, Impl: konst(tag)}
	}
	set := []*ref.Fun{
		mk("g", []*ref.Ty{ref.TList(a)}, ref.TStr, "g/list"),
		mk("g", []*ref.Ty{a}, ref.TStr, "g/any"),
		mk("g", []*ref.Ty{ref.TNum}, ref.TStr, "g/num"),
		mk("g", []*ref.Ty{ref.TMap(k, ref.TNum)}, ref.TStr, "g/mapk"),
		mk("h", []*ref.Ty{a, a}, ref.TStr, "h/same"),
		mk("h", []*ref.Ty{a, b}, ref.TStr, "h/any2"),
		mk("h", []*ref.Ty{ref.TList(a), ref.TMap(ref.TStr, a)}, ref.TStr, "h/listmap"),
		mk("q", []*ref.Ty{oAB}, ref.TStr, "q/obj"),
		mk("q", []*ref.Ty{ref.TObj(ref.F("a", a))}, ref.TStr, "q/obja"),
		mk("w", []*ref.Ty{a}, b, "w/unground-result"),
		mk("w", []*ref.Ty{ref.TNum}, ref.TStr, "w/num"),
		mk("total", []*ref.Ty{ref.TMap(k, ref.TNum)}, ref.TNum, "total"),
		mk("cat", []*ref.Ty{ref.TList(ref.TNum), ref.TList(ref.TNum)}, ref.TList(ref.TNum), "cat"),
		mk("nest", []*ref.Ty{ref.TMap(k, ref.TList(ref.TNum))}, ref.TStr, "nest/map-of-list"),
		mk("nest", []*ref.Ty{ref.TList(ref.TList(ref.TNum))}, ref.TStr, "nest/list-of-list"),
		mk("nest", []*ref.Ty{ref.TList(ref.TMap(ref.TStr, a))}, ref.TStr, "nest/list-of-map"),
		mk("nest", []*ref.Ty{ref.TObj(ref.F("f", ref.TList(a)))}, ref.TStr, "nest/obj-of-list"),
		mk("nest", []*ref.Ty{a}, ref.TStr, "nest/any"),
		// higher-order: ap :: a -> (a -> b) -> str ; ap2 :: (a -> b) -> list[a] -> str
		mk("ap", []*ref.Ty{a, ref.TFun([]*ref.Ty{a}, b)}, ref.TStr, "ap"),
		mk("ap2", []*ref.Ty{ref.TFun([]*ref.Ty{a, b}, ref.TBool), a, b}, ref.TStr, "ap2"),
		// one concrete composite type object used for several parameters of a polymorphic function
		mk("pk2", []*ref.Ty{shL, shL, a}, ref.TStr, "pk2"),
		mk("pk3", []*ref.Ty{shM, a, shM}, ref.TStr, "pk3"),
		mk("pk4", []*ref.Ty{oAB, oAB, a, a}, ref.TStr, "pk4"),
		// monomorphic signatures with objects below one-field wrappers, lists and maps:
		// the call site writes the inner fields in another order
		mk("np1", []*ref.Ty{ref.TObj(ref.F("w", oAB))}, ref.TStr, "np1"),
		mk("np2", []*ref.Ty{ref.TObj(ref.F("u", ref.TObj(ref.F("v", oAB))))}, ref.TStr, "np2"),
		mk("np3", []*ref.Ty{ref.TList(oAB)}, ref.TStr, "np3"),
		mk("np4", []*ref.Ty{ref.TMap(ref.TStr, ref.TObj(ref.F("w", oAB)))}, ref.TStr, "np4"),
		mk("np5", []*ref.Ty{ref.TObj(ref.F("w", oAB), ref.F("z", ref.TNum)), ref.TMaybe(oAB)}, ref.TStr, "np5"),
	}
	n := func(i int) *ref.E { return ref.Num(fmt.Sprint(i), float64(i)) }
	abLit := func(swapped bool) *ref.E { // {a: 1, b: "x"} in either field order
		if swapped {
			return ref.Obj([]string{"b", "a"}, []*ref.E{ref.Str("x"), n(1)})
		}
		return ref.Obj([]string{"a", "b"}, []*ref.E{n(1), ref.Str("x")})
	}
	bot := ref.Subscript(ref.List(), n(0))
	progs := []*ref.E{
		ref.Call("g", ref.List(n(1))), ref.Call("g", n(1)), ref.Call("g", ref.Str("x")), ref.Call("g", ref.List()), ref.Call("g", bot),
		ref.Call("g", ref.Map([]*ref.E{ref.Str("k")}, []*ref.E{n(1)})), ref.Call("g", ref.Map([]*ref.E{n(1)}, []*ref.E{n(1)})), ref.Call("g", ref.Map(nil, nil)),
		ref.Call("h", n(1), n(2)), ref.Call("h", n(1), ref.Str("x")), ref.Call("h", ref.List(n(1)), ref.Map([]*ref.E{ref.Str("k")}, []*ref.E{n(1)})),
		ref.Call("h", ref.List(n(1)), ref.List()), ref.Call("h", ref.List(), ref.List()), ref.Call("h", ref.List(ref.List(n(1))), ref.List(ref.List())),
		ref.Call("q", ref.Obj([]string{"a", "b"}, []*ref.E{n(1), ref.Str("x")})), ref.Call("q", ref.Obj([]string{"b", "a"}, []*ref.E{ref.Str("x"), n(1)})),
		ref.Call("q", ref.Obj([]string{"a"}, []*ref.E{ref.Str("x")})), ref.Call("q", ref.Ident("o")), ref.Call("q", ref.Obj([]string{"a", "a"}, []*ref.E{n(1), n(2)})),
		ref.Call("w", n(1)), ref.Call("w", ref.Str("x")), ref.Call("total", ref.Map([]*ref.E{ref.Str("k")}, []*ref.E{n(1)})), ref.Call("total", ref.Map([]*ref.E{n(1)}, []*ref.E{n(1)})),
		ref.Call("total", ref.Map([]*ref.E{n(1)}, []*ref.E{ref.Str("v")})), ref.Call("cat", ref.Ident("xs"), ref.Ident("xs")), ref.Call("cat", ref.Ident("xs"), ref.List()),
		ref.Call("cat", ref.Ident("xs"), ref.List(n(1))),
		ref.Call("nest", ref.Map([]*ref.E{ref.Str("k")}, []*ref.E{ref.List()})), ref.Call("nest", ref.Map([]*ref.E{ref.Str("k")}, []*ref.E{ref.List(n(1))})),
		ref.Call("nest", ref.List(ref.List())), ref.Call("nest", ref.List(ref.List(n(1)))), ref.Call("nest", ref.List(ref.List(), ref.List())),
		ref.Call("nest", ref.List(ref.Map(nil, nil))), ref.Call("nest", ref.List(ref.Map([]*ref.E{ref.Str("k")}, []*ref.E{ref.List()}))),
		ref.Call("nest", ref.Obj([]string{"f"}, []*ref.E{ref.List()})), ref.Call("nest", ref.Obj([]string{"f"}, []*ref.E{ref.List(n(1))})),
		ref.Call("ap", n(1), ref.Subscript(ref.Ident("fs"), n(0))), ref.Call("ap", ref.Str("x"), ref.Subscript(ref.Ident("fs"), n(0))),
		ref.Call("ap", ref.Str("x"), ref.Ident("g1")), ref.Call("ap", n(1), ref.Ident("g1")), ref.Call("ap", ref.List(n(1)), ref.Ident("g2")),
		ref.Call("ap2", ref.Ident("f1"), n(1), ref.Str("s")), ref.Call("ap2", ref.Ident("f1"), ref.Str("s"), n(1)), ref.Call("ap2", ref.Ident("g3"), ref.Str("s"), ref.Str("t")),
		ref.Call("nest", ref.Map(nil, nil)), ref.Call("nest", ref.List()), ref.Call("nest", ref.Map([]*ref.E{n(1)}, []*ref.E{ref.Map(nil, nil)})),
		ref.Call("pk2", ref.Ident("ys"), ref.Ident("ys"), ref.Str("k")), ref.Call("pk2", ref.Ident("ys"), ref.Ident("ys2"), ref.Str("k")), ref.Call("pk2", ref.Ident("xs"), ref.Ident("xs"), n(1)),
		ref.Call("pk2", ref.Ident("ys"), ref.List(n(1)), ref.Str("k")), ref.Call("pk2", ref.List(n(1)), ref.List(n(2)), ref.Ident("n")), ref.Call("pk2", ref.Ident("ys"), ref.List(ref.Str("s")), n(1)),
		ref.Call("pk3", ref.Ident("ms"), n(1), ref.Ident("ms")), ref.Call("pk3", ref.Ident("ms"), ref.Str("s"), ref.Map([]*ref.E{ref.Str("k")}, []*ref.E{n(1)})), ref.Call("pk3", ref.Ident("ms"), ref.Ident("ms"), ref.Ident("ms")),
		ref.Call("pk4", ref.Ident("o"), ref.Ident("o"), n(1), n(2)), ref.Call("pk4", ref.Ident("o"), ref.Obj([]string{"b", "a"}, []*ref.E{ref.Str("x"), n(1)}), ref.Str("s"), ref.Str("t")),
		ref.Call("pk4", ref.Ident("o"), ref.Ident("o"), n(1), ref.Str("s")), ref.Call("pk4", ref.Ident("o"), ref.Ident("o"), ref.Ident("o"), ref.Ident("o")),
		ref.Call("np1", ref.Obj([]string{"w"}, []*ref.E{abLit(false)})), ref.Call("np1", ref.Obj([]string{"w"}, []*ref.E{abLit(true)})), ref.Call("np1", ref.Obj([]string{"w"}, []*ref.E{ref.Ident("o")})),
		ref.Call("np2", ref.Obj([]string{"u"}, []*ref.E{ref.Obj([]string{"v"}, []*ref.E{abLit(true)})})), ref.Call("np2", ref.Obj([]string{"u"}, []*ref.E{ref.Obj([]string{"v"}, []*ref.E{abLit(false)})})),
		ref.Call("np3", ref.List(abLit(true))), ref.Call("np3", ref.List(abLit(false), abLit(true))), ref.Call("np3", ref.List(ref.Ident("o"), abLit(true))),
		ref.Call("np4", ref.Map([]*ref.E{ref.Str("k")}, []*ref.E{ref.Obj([]string{"w"}, []*ref.E{abLit(true)})})),
		ref.Call("np5", ref.Obj([]string{"z", "w"}, []*ref.E{n(1), abLit(true)}), ref.Ident("mo")), ref.Call("np5", ref.Obj([]string{"w", "z"}, []*ref.E{abLit(false), n(1)}), ref.Ident("mo")),
		ref.Call("np1", ref.Obj([]string{"w"}, []*ref.E{ref.Obj([]string{"b", "a"}, []*ref.E{n(1), ref.Str("x")})})),
		// documented corner cases of the built-ins
		ref.Call("len", ref.List()), ref.CallF(ref.FInfix, "==", ref.List(), ref.List()), ref.CallF(ref.FInfix, "==", ref.List(n(1)), ref.List()),
		ref.CallF(ref.FInfix, "==", ref.List(), ref.List(n(1))), ref.Call("union", ref.List(n(1)), ref.List()), ref.Call("union", ref.List(), ref.List(n(1))),
		ref.Call("get", ref.List(), n(0), n(1)), ref.Call("max", ref.List()), ref.Call("if", ref.Bool(true), ref.List(n(1)), ref.List()),
		ref.Call("if", ref.Bool(true), ref.List(), ref.List(n(1))), ref.CallF(ref.FInfix, "==", ref.Map([]*ref.E{n(1)}, []*ref.E{n(2)}), ref.Map(nil, nil)),
		ref.Call("if", ref.Bool(true), bot, bot.Clone()), ref.Call("string", bot.Clone()), ref.Call("len", bot.Clone()), ref.Call("get", bot.Clone(), n(0), n(1)),
		ref.List(ref.List(), ref.List()), ref.List(ref.List(n(1)), ref.List()), ref.List(ref.List(), ref.List(n(1))), ref.Map([]*ref.E{bot.Clone()}, []*ref.E{n(1)}),
		ref.Subscript(ref.Map(nil, nil), ref.Str("a")), ref.Subscript(ref.Map(nil, nil), bot.Clone()), ref.Subscript(ref.Ident("xs"), ref.Str("a")), ref.Subscript(ref.Ident("n"), n(0)),
		ref.Member(ref.Ident("o"), "a"), ref.Member(ref.Ident("o"), "zz"), ref.Member(ref.Ident("xs"), "a"), ref.Member(ref.Obj(nil, nil), "a"),
		ref.Ident("map"), ref.Ident("match"), ref.Call("match", ref.Str("a"), ref.Str("a")), ref.Obj([]string{"map", "list"}, []*ref.E{n(1), n(2)}),
		ref.Member(ref.Obj([]string{"match"}, []*ref.E{n(1)}), "match"), ref.Ident("undefined_name"), ref.Ident("len"),
		ref.CallF(ref.FInfix, "and", ref.Bool(true), ref.Bool(false)), ref.Call("abs", n(1), n(2)), ref.Call("abs"), ref.Call("nosuchfun", n(1)),
		ref.DynCall(ref.Subscript(ref.Ident("fs"), n(0)), n(1)), ref.DynCall(ref.Subscript(ref.Ident("fs"), n(0)), ref.Str("x")), ref.DynCall(ref.Subscript(ref.Ident("fs"), n(0))),
		ref.DynCall(ref.Subscript(ref.Ident("xs"), n(0)), n(1)), ref.DynCall(ref.Call("if", ref.Bool(true), ref.Ident("f1"), ref.Ident("f1")), n(1), ref.Str("x")),
		ref.Map([]*ref.E{ref.List(n(1))}, []*ref.E{n(1)}), ref.Map([]*ref.E{ref.Obj(nil, nil)}, []*ref.E{n(1)}), ref.Map([]*ref.E{n(1), ref.Str("x")}, []*ref.E{n(1), n(2)}),
		ref.Map([]*ref.E{n(1), n(2)}, []*ref.E{n(1), ref.Str("x")}), ref.List(n(1), ref.Str("x")), ref.List(ref.Obj([]string{"a"}, []*ref.E{n(1)}), ref.Obj([]string{"b"}, []*ref.E{n(1)})),
		ref.List(ref.Obj([]string{"a", "b"}, []*ref.E{n(1), n(2)}), ref.Obj([]string{"b", "a"}, []*ref.E{n(1), n(2)})),
		ref.List(ref.Obj([]string{"a", "b"}, []*ref.E{n(1), n(2)}), ref.Obj([]string{"b", "a"}, []*ref.E{n(1), ref.Str("x")})),
	}
	// every registration order of each overload group (<= 4 members): rotate
	// and reverse the whole set, and all permutations of the 'g' group
	orders := [][]*ref.Fun{set}
	rev := append([]*ref.Fun(nil), set...)
	for i, j := 0, len(rev)-1; i < j; i, j = i+1, j-1 {
		rev[i], rev[j] = rev[j], rev[i]
	}
	orders = append(orders, rev)
	gIdx := []int{0, 1, 2, 3}
	var permute func(k int)
	permute = func(k int) {
		if k == len(gIdx) {
			o := append([]*ref.Fun(nil), set...)
			for i, j := range gIdx {
				o[i] = set[j]
			}
			orders = append(orders, o)
			return
		}
		for i := k; i < len(gIdx); i++ {
			gIdx[k], gIdx[i] = gIdx[i], gIdx[k]
			permute(k + 1)
			gIdx[k], gIdx[i] = gIdx[i], gIdx[k]
		}
	}
	permute(0)
	hPerms := [][3]int{{4, 5, 6}, {4, 6, 5}, {5, 4, 6}, {5, 6, 4}, {6, 4, 5}, {6, 5, 4}}
	for _, hp := range hPerms {
		o := append([]*ref.Fun(nil), set...)
		o[4], o[5], o[6] = set[hp[0]], set[hp[1]], set[hp[2]]
		orders = append(orders, o)
	}
	// one polymorphic function value registered twice, more overloads after it
	dup := append([]*ref.Fun{set[0], set[0]}, set...)
	orders = append(orders, dup)
	dup2 := append([]*ref.Fun{set[5], set[4], set[4], set[6]}, set...)
	orders = append(orders, dup2)
	for oi, ord := range orders {
		for pi, p := range progs {
			e := p.Clone()
			out = append(out, &ProgCase{ID: fmt.Sprintf("overload/%d/%d", oi, pi), Src: ref.Render(e), E: e, Env: env, User: ord,
				Back: []bridge.Backend{bridge.Closure, bridge.VM}})
		}
	}
	return out
}

// incrementalRegistration: overloads registered BETWEEN compilations on one
// engine; every compilation must follow the rules for the table as it is then.
func incrementalRegistration(c *run.Ctx) {
	all := overloadCases()
	if len(all) == 0 {
		return
	}
	// the programs and the full overload set of the first registration order
	var progs []*ProgCase
	for _, pc := range all {
		if len(pc.ID) > 11 && pc.ID[:11] == "overload/0/" {
			progs = append(progs, pc)
		}
	}
	set := progs[0].User
	for k := 0; k < c.Pick(40, 400); k++ {
		if !c.Mine(k) {
			continue
		}
		c.Case(fmt.Sprintf("incremental/%d", k), func() {
			r := c.Rng("incremental", k)
			order := r.Perm(len(set))
			sess := bridge.NewSession(nil)
			var table []*ref.Fun
			cuts := []int{1 + r.Intn(4), 5 + r.Intn(4), len(set)}
			done := 0
			for _, cut := range cuts {
				for ; done < cut && done < len(set); done++ {
					f := set[order[done]]
					sess.Register(f)
					table = append(table, f)
				}
				ft := funTable(table)
				for pi, pc := range progs {
					if (pi+k)%3 != 0 {
						continue
					}
					e := pc.E.Clone()
					want, werr := ref.Check(e, pc.Env.T, ft)
					cc, cerr := sess.Compile(pc.Src, pc.Env.TypeEnv(), bridge.Closure)
					c.Count("verdicts_compared", 1)
					what := fmt.Sprintf("after registering %d of %d overloads on one engine, %q", done, len(set), pc.Src)
					if (werr == nil) != (cerr == nil) {
						c.Violation("stale-resolution", fmt.Sprintf("%s: accepted=%v, the rules for the current table say %v (%v / %v)", what, cerr == nil, werr == nil, cerr, werr), nil)
						continue
					}
					if cerr == nil {
						got, _ := bridge.FromType(cc.Type)
						if got == nil || !ref.Eq(got, want) {
							c.Violation("stale-resolution", fmt.Sprintf("%s: inferred %s, the rules for the current table assign %s", what, tyCanon(got), want.Canon()), nil)
							continue
						}
						// and the chosen overload is the one the rules choose (each returns its own tag)
						ev := &ref.Evaluator{Env: pc.Env.V, FT: ft}
						wo := ev.Eval(e)
						res := cc.Exec(pc.Env.ValEnv())
						if wo.V != nil && res.Class == bridge.OValue {
							if rv, err := bridge.FromVal(res.Val, nil); err == nil && !ref.Same(rv, wo.V) {
								c.Violation("stale-resolution", fmt.Sprintf("%s: evaluates to %s, the overload the rules choose gives %s", what, ref.Dump(rv), ref.Dump(wo.V)), nil)
							}
						}
					}
				}
			}
			c.Distinct(fmt.Sprintf("incremental/%v", order))
		})
	}
}

func init() {
	run.Register(&run.Spec{
		ID: "C05", Run: func(c *run.Ctx) {
			incrementalRegistration(c)
			user := ref.UserFuns()
			opt := ref.GenOpt{MaxDepth: 5, PFail: 0.02, PSugar: 0.6, PBoundary: 0.1, PGroup: 0.03, UserFuns: true}
			both := func(c *run.Ctx, o *ProgObs) { oracleC05(c, o); oracleC02(c, o); oracleC04(c, o) }
			fixedCases(c, dupRegistrationCases(), both)
			stream(c, "welltyped", c.Pick(6000, 250000), opt, user, 0, both)
			stream(c, "mutant", c.Pick(12000, 400000), opt, user, 1.0, both)
			fixedCases(c, overloadCases(), both)
			fixedCases(c, deepMismatchCases(), func(c *run.Ctx, o *ProgObs) { oracleC05(c, o); oracleC04(c, o) })
			fixedCases(c, sharedNodeCases(), both)
			fixedCases(c, permCases(), oracleC05)
			fixedCases(c, boundaryCases(), oracleC05)
			fixedCases(c, lazyCases(), oracleC05)
		},
		Level: "exploration",
		Rule: "type-directed programs (accept side) and their type-breaking mutations (reject side: foreign sub-term, dropped / added / swapped argument, renamed field, composite or foreign map key, heterogeneous element, empty literal where a typed one is needed, reserved / undefined identifier, wrong index type), " +
			"harness overload sets registered in every permutation (mono vs poly, repeated variables, object parameters in permuted field order, shared parameter nodes, bottom-typed arguments, key-polymorphic maps, non-ground results), dynamic callees; the same overload sets registered incrementally between compilations on one engine; " +
			"monitor = accept/reject and inferred type compared with the reference checker (structural, fields by name), and accepted programs are executed so that a rejection arriving only at run time is seen as an INTERNAL outcome. distinct = distinct source text",
		Assume:    []string{"the reference checker encodes the typing rules stated in the property and README (DESIGN.md §2.5)"},
		MinEvents: 5000, EventKey: "verdicts_compared",
	})
}

// ---------------------------------------------------------------- C06

func oracleC06(c *run.Ctx, o *ProgObs) {
	if o.Case.E == nil || o.RefErr != nil || o.RefOut.Silent != nil {
		return
	}
	eachBack(o, func(name string, b *BackObs) {
		c.Count("traces_compared", 1)
		c.Count("trace_entries", len(o.RefTrace))
		if !sameTrace(o.RefTrace, b.Res.Obs.Trace) {
			c.Violation("host-call-trace", fmt.Sprintf("%s invoked host functions [%s]; the program determines [%s] :: %s", name, traceStr(b.Res.Obs.Trace), traceStr(o.RefTrace), short(o.Case.Src)), o.witness())
		}
		if o.RefOut.Fail == nil && b.Res.Class != bridge.OValue {
			c.Violation("unselected-operand-ran", fmt.Sprintf("%s failed (%s: %s) although every partial operation sits in an operand that is not selected :: %s", name, b.Res.Class, b.Res.Msg, short(o.Case.Src)), o.witness())
		}
		if o.RefOut.Fail != nil && b.Res.Class == bridge.OValue {
			c.Violation("selected-operand-skipped", fmt.Sprintf("%s returned a value although a selected operand fails (%s) :: %s", name, o.RefOut.Fail.Class, short(o.Case.Src)), o.witness())
		}
	})
}

// facadeRepeatC06: through the public engine: one Callable compiled without
// any variables (nil, empty map, empty struct, empty *types.Env) or with
// them, invoked several times; every invocation calls the host functions the
// program determines -- the second and third as much as the first.
func facadeRepeatC06(c *run.Ctx) {
	user := ref.UserFuns()
	ft := funTable(user)
	cases := lazyCases()
	for i, pc := range cases {
		if !c.Mine(i) {
			continue
		}
		pc := pc
		c.Case("facade-"+pc.ID, func() {
			c.Input(pc.Src)
			usesVars := false
			pc.E.Walk(func(e *ref.E) {
				if e.K == ref.EIdent {
					usesVars = true
				}
			})
			e := pc.E.Clone()
			if _, err := ref.Check(e, pc.Env.T, ft); err != nil {
				return
			}
			ev := &ref.Evaluator{Env: pc.Env.V, FT: ft, Loc: time.Local}
			out := ev.Eval(e)
			if out.Silent != nil {
				return
			}
			for ek := 0; ek < 2; ek++ {
				eng := newC13Engine("facade", ek == 1, user)
				var cenv, renv interface{} = pc.Env.TypeEnv(), pc.Env.ValEnv()
				if !usesVars {
					switch i % 4 {
					case 0:
						cenv, renv = nil, nil
					case 1:
						cenv, renv = map[string]interface{}{}, map[string]interface{}{}
					case 2:
						cenv, renv = struct{}{}, struct{}{}
					default:
						cenv, renv = types.NewEnv(), val.NewEnv()
					}
				}
				cl, co := facadeCompile(eng, pc.Src, cenv)
				if cl == nil {
					c.Violation("host-call-trace", fmt.Sprintf("the engine does not compile %s (%s %s)", short(pc.Src), co.Kind, co.Detail), nil)
					return
				}
				for rep := 0; rep < 3; rep++ {
					obs := eng.sess.Begin()
					var v *val.Val
					var err error
					func() {
						defer func() {
							if r := recover(); r != nil {
								err = fmt.Errorf("panic: %v", r)
							}
						}()
						v, err = cl(renv)
					}()
					c.Count("traces_compared", 1)
					c.Count("trace_entries", len(ev.Trace))
					if !sameTrace(ev.Trace, obs.Trace) {
						c.Violation("host-call-trace", fmt.Sprintf("invocation %d of one Callable (engine %d, compile environment %T) invoked host functions [%s]; the program determines [%s] :: %s", rep+1, ek, cenv, traceStr(obs.Trace), traceStr(ev.Trace), short(pc.Src)), nil)
						return
					}
					if (out.Fail == nil) != (err == nil) {
						c.Violation("unselected-operand-ran", fmt.Sprintf("invocation %d of one Callable ends %v %v; the reference outcome is %s :: %s", rep+1, safeStr(v), err, out, short(pc.Src)), nil)
						return
					}
				}
			}
			c.Distinct("facade-" + pc.ID)
		})
	}
}

func init() {
	run.Register(&run.Spec{
		ID: "C06", Run: func(c *run.Ctx) {
			facadeRepeatC06(c)
			user := append(ref.UserFuns(), ref.Twice())
			opt := ref.GenOpt{MaxDepth: 6, PFail: 0.15, PSugar: 0.6, PBoundary: 0.2, PGroup: 0.03, UserFuns: true}
			fixedCases(c, lazyCases(), oracleC06)
			fixedCases(c, wideThunkCases(), oracleC06)
			stream(c, "mixed", c.Pick(6000, 400000), opt, user, 0, oracleC06)
			fixedCases(c, permCases(), oracleC06)
		},
		Level: "exploration",
		Rule: "enumerated laziness families: every lazy form (if, ?:, &&, ||, user lzIf / lzAnd / pick3) × every selection with effect-recording operands and failing-and-recording operands in the unselected positions, nested two and three deep (deferred code that calls lazy functions), rev2 / twice (thunks forced in reverse / twice), every strict operand position (arguments, list elements, map key-then-value, object fields, container-then-index, receiver-then-arguments), the guarded idiom if(isset(m,k), m[k], d) over present / absent keys; then random programs with 15% failing sub-terms; the enumerated families once more through the public engine (vm and closure compiler), compiled with no variables at all (nil / empty map / empty struct / empty *types.Env) where the program uses none, one Callable invoked three times; " +
			"monitor = ordered host-call trace and failure/value outcome compared with the reference evaluator's, on 4 back ends of the plain pipeline plus 2 long-lived public engines. distinct = case id or distinct source",
		Assume:    []string{"trace entries are (function, rendered arguments); lazy functions record at entry"},
		MinEvents: 2000, EventKey: "traces_compared",
	})
}
