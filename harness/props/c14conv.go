package props

import (
	"github.com/goghcrow/yae/conv"
	"github.com/goghcrow/yae/val"
)

func convValEnv(v interface{}) (*val.Env, error) { return conv.ValEnvOf(v) }
