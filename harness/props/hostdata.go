package props

import (
	"fmt"
	"reflect"
	"strconv"

	yae "github.com/goghcrow/yae"
	"github.com/goghcrow/yae/conv"
	"github.com/goghcrow/yae/types"
	"github.com/goghcrow/yae/val"

	"verif/harness/bridge"
	"verif/harness/ref"
	"verif/harness/run"
)

// accessPaths enumerates member / subscript paths into a value of declared
// type t (reference form), up to a depth.
func accessPaths(prefix string, t *ref.Ty, v *ref.V, d int, out *[]string) {
	*out = append(*out, prefix)
	if d <= 0 || v == nil {
		return
	}
	switch t.K {
	case ref.KList:
		for i := range v.L {
			if i > 2 {
				break
			}
			accessPaths(prefix+"["+strconv.Itoa(i)+"]", t.El, v.L[i], d-1, out)
		}
	case ref.KObj:
		for _, f := range t.Fs {
			if !isPlainIdent(f.Name) {
				continue
			}
			accessPaths("("+prefix+")."+f.Name, f.T, v.FieldVal(f.Name), d-1, out)
		}
	case ref.KMap:
		for i, kv := range v.M {
			if i > 1 {
				break
			}
			var k string
			switch kv.K.T.K {
			case ref.KStr:
				if !validSourceString(kv.K.S) {
					continue
				}
				k = ref.QuoteStr(kv.K.S)
			case ref.KNum:
				if kv.K.N < 0 || kv.K.N != float64(int64(kv.K.N)) || kv.K.N > 1e15 {
					continue
				}
				k = strconv.FormatInt(int64(kv.K.N), 10)
			default:
				continue
			}
			accessPaths(prefix+"["+k+"]", t.Val, kv.V, d-1, out)
		}
	}
}

func isPlainIdent(s string) bool {
	if s == "" || ref.Reserved(s) {
		return false
	}
	for i, r := range s {
		if r == '_' || (r >= 'a' && r <= 'z') || (r >= 'A' && r <= 'Z') || (i > 0 && r >= '0' && r <= '9') {
			continue
		}
		return false
	}
	return true
}

func validSourceString(s string) bool {
	for _, r := range s {
		if r == 0xFFFD {
			return false
		}
	}
	return true
}

// inconsistent host data that the conversion must either reject or convert
// into well-typed values
func c01HostPool() []interface{} {
	one, two := 1, 2
	type rowI struct {
		Id  int         `yae:"id"`
		Val interface{} `yae:"val"`
	}
	type item struct {
		Score *int `yae:"score"`
		Name  string
	}
	type ab struct {
		A int    `yae:"a"`
		B string `yae:"b"`
	}
	type ba struct {
		B string `yae:"b"`
		A int    `yae:"a"`
	}
	return []interface{}{
		[]rowI{{1, 10}, {2, "ten"}}, []rowI{{1, 10}, {2, 20}}, [][]interface{}{{1, 10}, {"x", "ten"}}, [][]interface{}{{1, 10}, {2, 20}},
		[]item{{&one, "a"}, {&two, "b"}, {nil, "c"}}, []item{{&one, "a"}, {&two, "b"}}, []item{{nil, "a"}, {nil, "b"}},
		[]interface{}{ab{1, "x"}, ba{"y", 2}}, map[string]interface{}{"p": ab{1, "x"}, "q": ba{"y", 2}}, []interface{}{ab{1, "x"}, ab{2, "y"}},
		map[string][]interface{}{"a": {1, 2}, "b": {"x"}}, []map[string]interface{}{{"k": 1}, {"k": "s"}},
		[]*item{{&one, "a"}, {nil, "b"}}, map[int]rowI{1: {1, 1.5}, 2: {2, true}},
		struct {
			Rows []rowI `yae:"rows"`
		}{[]rowI{{1, 10}, {2, "ten"}}},
	}
}

func hostDataCase(c *run.Ctx, desc string, host interface{}) {
	env := map[string]interface{}{"v": host, "i": 1}
	var tenv *types.Env
	var venv *val.Env
	err, p := convGuard(func() error {
		var e error
		if tenv, e = conv.TypeEnvOf(env); e != nil {
			return e
		}
		venv, e = conv.ValEnvOf(env)
		return e
	})
	if p != "" || err != nil {
		c.Count("host_data_rejected", 1)
		return
	}
	c.Count("host_data_accepted", 1)
	dt, _ := tenv.Get("v")
	hv, _ := venv.Get("v")
	c.Count("values_walked", 1)
	rv, ierr := bridge.FromVal(hv, dt)
	if ierr != nil {
		c.Violation("ill-typed-host-value", fmt.Sprintf("host data %s passes the environment check but is not a well-typed value of %s: %v", desc, dt, ierr), nil)
		return
	}
	rt, _ := bridge.FromType(dt)
	var paths []string
	accessPaths("v", rt, rv, 3, &paths)
	for _, src := range paths {
		for _, closureBackend := range []bool{false, true} {
			ex := yae.NewExpr()
			if closureBackend {
				ex.UseClosureCompiler()
			}
			var out *val.Val
			var ty *types.Type
			err, p := convGuard(func() error {
				// the inferred type: the same pipeline on a session
				sess := bridge.NewSession(nil)
				te, _ := conv.TypeEnvOf(env)
				cc, cerr := sess.Compile(src, te, bridge.Closure)
				if cerr != nil {
					return cerr
				}
				ty = cc.Type
				cl, e := ex.Compile(src, env)
				if e != nil {
					return e
				}
				out, e = cl(env)
				return e
			})
			if p != "" || err != nil {
				continue // failures are C02's subject
			}
			c.Count("values_walked", 1)
			if _, ierr := bridge.FromVal(out, ty); ierr != nil {
				c.Violation("ill-typed-value", fmt.Sprintf("over host data %s, %q : %s evaluates to a value of another type: %v", desc, src, ty, ierr), nil)
				return
			}
		}
	}
}

func init() {
	hostDataC01 = func(c *run.Ctx) {
		pool := c01HostPool()
		for i, h := range pool {
			if !c.Mine(i) {
				continue
			}
			h := h
			c.Case(fmt.Sprintf("hostpool/%d", i), func() {
				hostDataCase(c, fmt.Sprintf("%#v", h), h)
				c.Distinct(fmt.Sprintf("hostpool/%d", i))
			})
		}
		n := c.Pick(1500, 40000)
		for i := 0; i < n; i++ {
			if !c.Mine(i) {
				continue
			}
			r := c.Rng("hostdata", i)
			c.Case(fmt.Sprintf("hostdata/%d", i), func() {
				h := &hostGen{r: r}
				sh := h.shape(1 + r.Intn(3))
				gv, _ := sh.Gen(r, false)
				c.Input(sh.Desc)
				var host interface{} = gv.Interface()
				if r.Intn(3) == 0 { // several independently drawn values of one shape behind interfaces
					xs := []interface{}{}
					for k := 0; k < 2+r.Intn(2); k++ {
						g2, _ := sh.Gen(r, false)
						xs = append(xs, g2.Interface())
					}
					host = xs
				} else if r.Intn(3) == 0 {
					sl := reflect.MakeSlice(reflect.SliceOf(sh.GoT), 0, 3)
					for k := 0; k < 2+r.Intn(2); k++ {
						g2, _ := sh.Gen(r, false)
						sl = reflect.Append(sl, g2)
					}
					host = sl.Interface()
				}
				hostDataCase(c, sh.Desc, host)
				c.Distinct(sh.Desc)
			})
		}
	}
}
