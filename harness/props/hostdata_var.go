package props

import "verif/harness/run"

// set in hostdata.go's init
var hostDataC01 func(c *run.Ctx)
