package props

import (
	"fmt"
	"time"

	yae "github.com/goghcrow/yae"
	"github.com/goghcrow/yae/types"
	"github.com/goghcrow/yae/val"

	"verif/harness/bridge"
	"verif/harness/ref"
	"verif/harness/run"
)

func c16Env(g *ref.Gen) *bridge.Env {
	env := bridge.NewEnv()
	rec := ref.TObj(ref.F("bonus", ref.TMaybe(ref.TNum)), ref.F("tags", ref.TMaybe(ref.TList(ref.TStr))), ref.F("inner", ref.TObj(ref.F("z", ref.TMaybe(ref.TStr)), ref.F("k", ref.TNum))), ref.F("name", ref.TStr))
	mk := func(t *ref.Ty) *ref.V { return cleanForHost(g.Value(t, 2)) }
	for _, b := range []struct {
		n string
		t *ref.Ty
	}{
		{"n", ref.TNum}, {"k", ref.TNum}, {"s", ref.TStr}, {"b", ref.TBool}, {"t", ref.TTime}, {"xs", ref.TList(ref.TNum)}, {"m", ref.TMap(ref.TStr, ref.TNum)},
		{"o", ref.TObj(ref.F("a", ref.TNum), ref.F("b", ref.TStr))},
		{"on", ref.TMaybe(ref.TNum)}, {"on2", ref.TMaybe(ref.TNum)}, {"os", ref.TMaybe(ref.TStr)}, {"ob", ref.TMaybe(ref.TBool)}, {"ot", ref.TMaybe(ref.TTime)},
		{"ol", ref.TMaybe(ref.TList(ref.TNum))}, {"om", ref.TMaybe(ref.TMap(ref.TStr, ref.TNum))}, {"oo", ref.TMaybe(ref.TObj(ref.F("a", ref.TNum), ref.F("b", ref.TStr)))},
		{"oon", ref.TMaybe(ref.TMaybe(ref.TNum))},
		{"rec", rec}, {"recs", ref.TList(rec)}, {"mrec", ref.TMap(ref.TStr, rec)}, {"lo", ref.TList(ref.TMaybe(ref.TNum))},
	} {
		env.PutTyped(b.n, b.t, relayoutAs(mk(b.t), b.t))
	}
	return env
}

func optVarOf(t *ref.Ty) string {
	switch t.Canon() {
	case "num":
		return "on"
	case "str":
		return "os"
	case "bool":
		return "ob"
	case "time":
		return "ot"
	case "list[num]":
		return "ol"
	case "map[str,num]":
		return "om"
	case "{a:num,b:str}":
		return "oo"
	case "maybe[num]":
		return "oon"
	}
	return ""
}

func plainVarOf(t *ref.Ty) *ref.E {
	switch t.Canon() {
	case "num":
		return ref.Ident("n")
	case "str":
		return ref.Ident("s")
	case "bool":
		return ref.Ident("b")
	case "time":
		return ref.Ident("t")
	case "list[num]":
		return ref.Ident("xs")
	case "map[str,num]":
		return ref.Ident("m")
	case "{a:num,b:str}":
		return ref.Ident("o")
	case "maybe[num]":
		return ref.Ident("on")
	case "list[str]":
		return ref.List(ref.Ident("s"))
	}
	return nil
}

// oracle: an optional where the underlying type is required must be refused
// at compile time
func checkOptionalMisuse(c *run.Ctx, id string, e *ref.E, env *bridge.Env, why string) {
	src := ref.Render(e)
	c.Input(src)
	c.Count("optional_misuse_programs", 1)
	pc := &ProgCase{ID: id, Src: src, E: e, Env: env, Back: []bridge.Backend{bridge.VM, bridge.Closure}}
	o := RunProg(pc)
	for i, b := range o.Back {
		if b == nil {
			continue
		}
		if b.CompErr == nil {
			c.Violation("optional-accepted", fmt.Sprintf("%s accepts %q (%s) and ends %s; an optional may only be consumed through get(optional, default)", bridge.Backend(i), src, why, b.describe()), o.witness())
		} else if b.CompErr.Stage != "check" {
			c.Violation("optional-accepted", fmt.Sprintf("%s refuses %q only at stage %s (%s)", bridge.Backend(i), src, b.CompErr.Stage, b.CompErr.Msg), o.witness())
		}
	}
	if o.RefErr == nil {
		c.Violation("reference-disagrees", fmt.Sprintf("the reference checker accepts %q (%s)", src, why), nil)
	}
	c.Distinct(src)
}

func runC16(c *run.Ctx) {
	envUpdatedInPlace(c)
	nestedStructNilness(c)
	deepOptionalMisuse(c)
	g0 := &ref.Gen{R: c.Rng("env", 0)}
	env0 := c16Env(g0)
	// 1. every built-in, every parameter position: the optional of the required type
	ft := ref.Builtins()
	insts := []map[string]*ref.Ty{
		{"a": ref.TNum, "b": ref.TNum, "k": ref.TStr, "v": ref.TNum},
		{"a": ref.TStr, "b": ref.TStr, "k": ref.TStr, "v": ref.TNum},
		{"a": ref.TObj(ref.F("a", ref.TNum), ref.F("b", ref.TStr)), "b": ref.TNum, "k": ref.TStr, "v": ref.TNum},
	}
	caseNo := 0
	for fi, f := range ft.Funs {
		for ii, inst := range insts {
			if f.Mono() && ii > 0 {
				break
			}
			ps := make([]*ref.Ty, len(f.Params))
			args := make([]*ref.E, len(f.Params))
			ok := true
			for i, p := range f.Params {
				ps[i] = ref.Subst(p, inst)
				args[i] = plainVarOf(ps[i])
				if args[i] == nil {
					ok = false
				}
			}
			if !ok {
				continue
			}
			for pos := range f.Params {
				caseNo++
				if !c.Mine(caseNo) {
					continue
				}
				ov := optVarOf(ps[pos])
				if ov == "" {
					continue
				}
				// unconstrained parameters (a bare type variable) and optional
				// parameters accept an optional legitimately
				if f.Params[pos].K == ref.KVar || f.Params[pos].K == ref.KMaybe {
					continue
				}
				f, pos := f, pos
				id := fmt.Sprintf("builtin/%s#%d/%d/%d", f.Name, fi, ii, pos)
				c.Case(id, func() {
					as := make([]*ref.E, len(args))
					for i := range args {
						as[i] = args[i].Clone()
					}
					as[pos] = ref.Ident(ov)
					e := ref.Call(f.Name, as...)
					for _, form := range []ref.Form{ref.FCall, ref.FInfix, ref.FPrefix, ref.FMethod, ref.FTernary} {
						e2 := e.Clone()
						e2.Form = form
						checkOptionalMisuse(c, id, e2, env0, fmt.Sprintf("parameter %d of %s requires %s", pos, f.Name, ps[pos].Canon()))
					}
				})
			}
		}
	}
	// 2. field / index access and other constructs on optionals
	misuse := []struct {
		e   *ref.E
		why string
	}{
		{ref.Member(ref.Ident("oo"), "a"), "member access on an optional object"},
		{ref.Subscript(ref.Ident("ol"), ref.Num("0", 0)), "subscript on an optional list"},
		{ref.Subscript(ref.Ident("om"), ref.Str("a")), "subscript on an optional map"},
		{ref.Subscript(ref.Ident("xs"), ref.Ident("on")), "optional as list index"},
		{ref.Subscript(ref.Ident("m"), ref.Ident("os")), "optional as map key"},
		{ref.Map([]*ref.E{ref.Ident("os")}, []*ref.E{ref.Num("1", 1)}), "optional as literal map key"},
		{ref.CallF(ref.FInfix, "+", ref.Member(ref.Ident("rec"), "bonus"), ref.Num("1", 1)), "optional field in arithmetic"},
		{ref.CallF(ref.FInfix, "+", ref.Member(ref.Subscript(ref.Ident("recs"), ref.Num("0", 0)), "bonus"), ref.Num("1", 1)), "optional field of a list element in arithmetic"},
		{ref.Call("len", ref.Member(ref.Ident("rec"), "tags")), "len of an optional list field"},
		{ref.CallF(ref.FInfix, "+", ref.Member(ref.Member(ref.Ident("rec"), "inner"), "z"), ref.Str("x")), "nested optional field in concatenation"},
		{ref.CallF(ref.FInfix, "==", ref.Ident("on"), ref.Ident("on2")), "== on optionals"},
		{ref.CallF(ref.FInfix, "==", ref.Ident("on"), ref.Num("1", 1)), "== optional vs plain"},
		{ref.List(ref.Ident("on"), ref.Num("1", 1)), "optional and plain in one list"},
		{ref.Call("if", ref.Ident("b"), ref.Ident("on"), ref.Num("1", 1)), "optional and plain in if branches"},
		{ref.Call("get", ref.Ident("on"), ref.Str("x")), "default of another type"},
		{ref.Call("get", ref.Ident("on"), ref.Ident("on2")), "optional default for a num payload"},
		{ref.Call("get", ref.Ident("xs"), ref.Num("0", 0), ref.Ident("on")), "optional default for a list of num"},
		{ref.Call("get", ref.Ident("n"), ref.Num("0", 0)), "get on a plain value"},
		{ref.CallF(ref.FInfix, "+", ref.Subscript(ref.Ident("lo"), ref.Num("0", 0)), ref.Num("1", 1)), "element of a list of optionals in arithmetic"},
		{ref.Call("max", ref.Ident("lo")), "max of a list of optionals"},
		{ref.CallF(ref.FInfix, "+", ref.Call("get", ref.Ident("oon"), ref.Ident("on")), ref.Num("1", 1)), "payload of a nested optional is still optional"},
	}
	for i, mc := range misuse {
		if !c.Mine(i) {
			continue
		}
		mc := mc
		id := fmt.Sprintf("misuse/%d", i)
		c.Case(id, func() { checkOptionalMisuse(c, id, mc.e, env0, mc.why) })
	}
	untaggedPointers(c)
	// 3. random programs over environments with present / absent optionals
	// nested in lists, maps and objects: raw environments and host data
	opt := ref.GenOpt{MaxDepth: 5, PFail: 0.03, PSugar: 0.6, PBoundary: 0.1, PGroup: 0.03}
	n := c.Pick(3000, 300000)
	for i := 0; i < n; i++ {
		if !c.Mine(i) {
			continue
		}
		id := fmt.Sprintf("opt/%d", i)
		c.Case(id, func() {
			r := c.Rng("opt", i)
			g := &ref.Gen{R: r, FT: ref.Builtins(), Opt: opt, Loc: time.Local}
			env := c16Env(g)
			g.EnvT, g.Vars = env.T, env.Names
			var t *ref.Ty
			switch r.Intn(4) {
			case 0:
				t = ref.TNum
			case 1:
				t = ref.TStr
			default:
				t = g.Type(1)
			}
			e := g.Expr(t, 1+r.Intn(opt.MaxDepth))
			if r.Intn(3) == 0 { // force a consumption of an optional
				cand := []*ref.E{
					ref.Call("get", ref.Ident("on"), e.Clone()), ref.Call("get", ref.Member(ref.Ident("rec"), "bonus"), ref.Ident("n")),
					ref.Call("get", ref.Member(ref.Subscript(ref.Ident("recs"), ref.Num("0", 0)), "bonus"), ref.Num("7", 7)),
					ref.Call("len", ref.Call("get", ref.Member(ref.Ident("rec"), "tags"), ref.List(ref.Ident("s")))),
					ref.Call("get", ref.Call("get", ref.Ident("oon"), ref.Ident("on2")), ref.Ident("k")),
					ref.Call("get", ref.Subscript(ref.Ident("lo"), ref.Num("0", 0)), ref.Num("1", 1)),
					ref.CallF(ref.FMethod, "get", ref.Member(ref.Member(ref.Ident("rec"), "inner"), "z"), ref.Str("dflt")),
				}
				e = cand[r.Intn(len(cand))]
			}
			pc := &ProgCase{ID: id, Src: ref.Render(e), E: e, Env: env}
			c.Input(pc.Src)
			o := RunProg(pc)
			c.Count("optional_programs", 1)
			if o.Accepted() {
				c.Distinct(pc.Src)
			}
			oracleC02(c, o)
			oracleC04(c, o)
			oracleC05(c, o)
			oracleC01(c, o)
			// the same program over host data (struct with nil / non-nil pointers, slices, maps)
			if o.RefErr == nil && r.Intn(2) == 0 {
				st := goStyle{r: r}
				var names []string
				vs := map[string]*ref.V{}
				for _, nm := range env.Names {
					if hostable(env.T[nm], true) && env.T[nm].K != ref.KMaybe {
						names = append(names, nm)
						vs[nm] = env.V[nm]
					}
				}
				used := true
				e.Walk(func(x *ref.E) {
					if x.K == ref.EIdent {
						if _, ok := vs[x.Name]; !ok {
							used = false
						}
					}
				})
				if !used {
					return
				}
				host := st.goEnvStruct(names, vs, r.Perm(len(names)))
				c.Count("host_optional_programs", 1)
				out, perr := func() (s string, p string) {
					defer func() {
						if rr := recover(); rr != nil {
							p = fmt.Sprint(rr)
						}
					}()
					v, err := yae.Eval(pc.Src, host)
					if err != nil {
						return "ERR " + string(bridge.Classify(err.Error())) + " " + err.Error(), ""
					}
					rv, ierr := bridge.FromVal(v, nil)
					if ierr != nil {
						return "ILL " + ierr.Error(), ""
					}
					return "VAL " + ref.Dump(rv), ""
				}()
				want := ""
				switch {
				case o.RefOut.Silent != nil:
					return
				case o.RefOut.Fail != nil:
					want = "ERR " + string(failClassOf(o.RefOut.Fail))
				default:
					want = "VAL " + ref.Dump(o.RefOut.V)
				}
				if perr != "" || (want[:3] == "VAL" && out != want) || (want[:3] == "ERR" && (len(out) < len(want) || out[:len(want)] != want)) {
					c.Violation("optional-host-data", fmt.Sprintf("over host data with absent optionals, %q gives %s %s; the semantics gives %s", pc.Src, out, perr, want), o.witness())
				}
			}
			if i%997 == 0 {
				c.Sample(map[string]interface{}{"src": pc.Src, "reference": o.witness()["reference"]})
			}
		})
	}
}

type c16Item struct {
	Score *int `yae:"score"`
	Name  string
}

type c16Rec struct {
	Bonus *float64  `yae:"bonus"`
	Items []c16Item `yae:"items"`
}

// envUpdatedInPlace: a host keeps one *types.Env and one engine; a variable
// turns optional (and back) by Put on that same object; every compilation of
// the same texts must follow the environment as it is at that moment.
func envUpdatedInPlace(c *run.Ctx) {
	type prog struct {
		src       string
		okPlain   bool // accepted when x : num
		okOpt     bool // accepted when x : maybe[num]
		wantPlain float64
		wantAbs   float64 // result when x is absent (only when okOpt)
	}
	progs := []prog{
		{"x + xs[0]", true, false, 3, 0},
		{"get(x, 40) + xs[0]", false, true, 0, 42},
		{"xs[x]", true, false, 5, 0},
		{"-x", true, false, -1, 0},
		{"max(x, 0)", true, false, 1, 0},
		{"if(x > 0, 1, 2)", true, false, 1, 0},
		{"[x, 1][0]", true, false, 1, 0},
		{"get([x][0], 7)", false, true, 0, 7},
		{"len([x, x])", true, true, 2, 2},
		{"get(x, xs[1])", false, true, 0, 5},
	}
	backs := []func(*yae.Expr) *yae.Expr{
		func(e *yae.Expr) *yae.Expr { return e.UseBytecodeCompiler() },
		func(e *yae.Expr) *yae.Expr { return e.UseClosureCompiler() },
		func(e *yae.Expr) *yae.Expr { return e },
	}
	n := 0
	for bi, use := range backs {
		for start := 0; start < 2; start++ {
			for pi := range progs {
				n++
				if !c.Mine(n) {
					continue
				}
				bi, use, start, pi := bi, use, start, pi
				c.Case(fmt.Sprintf("env-updated/%d/%d/%d", bi, start, pi), func() {
					ex := use(yae.NewExpr())
					tenv := types.NewEnv()
					tenv.Put("xs", types.List(types.Num))
					lst := val.List(types.List(types.Num).List(), 2)
					lst.List().V[0], lst.List().V[1] = val.Num(2), val.Num(5)
					for round := 0; round < 6; round++ {
						opt := (round+start)%2 == 1
						if opt {
							tenv.Put("x", types.Maybe(types.Num))
						} else {
							tenv.Put("x", types.Num)
						}
						// the program under test and, in between, the others
						for _, k := range []int{pi, (pi + 1 + round) % len(progs), pi} {
							p := progs[k]
							c.Count("optional_misuse_programs", 1)
							what := fmt.Sprintf("%q with x : %s (round %d on one engine and one *types.Env updated in place, back end %d)", p.src, map[bool]string{false: "num", true: "maybe[num]"}[opt], round, bi)
							cl, err := ex.Compile(p.src, tenv)
							want := p.okPlain
							if opt {
								want = p.okOpt
							}
							if (err == nil) != want {
								if err == nil {
									c.Violation("optional-accepted", "accepted: "+what, nil)
								} else {
									c.Violation("reference-disagrees", fmt.Sprintf("refused (%v): %s", err, what), nil)
								}
								return
							}
							if err != nil {
								continue
							}
							venv := val.NewEnv()
							venv.Put("xs", lst)
							wantV := p.wantPlain
							if opt {
								venv.Put("x", val.Nothing(types.Num))
								wantV = p.wantAbs
							} else {
								venv.Put("x", val.Num(1))
							}
							v, rerr := cl(venv)
							if rerr != nil || v.Type.Kind != types.KNum || v.Num().V != wantV {
								c.Violation("optional-value", fmt.Sprintf("%s yields %v (%v); expected %v", what, safeStr(v), rerr, wantV), nil)
								return
							}
							c.Distinct(fmt.Sprintf("%s/%v", p.src, opt))
						}
					}
				})
			}
		}
	}
}

type c16In struct {
	P *float64
	Q []float64
}

type c16Host struct {
	N  float64
	S  string
	In c16In
}

// nestedStructNilness: a struct host whose own fields can never be nil but
// which embeds, by value, a struct with a pointer field: the field is a number
// when present and an optional when absent, call after call, whatever the
// process converted before.
func nestedStructNilness(c *run.Ctx) {
	type call struct {
		src     string
		present bool
	}
	progs := []struct {
		src            string
		okPres, okAbs  bool
		valPres, valAb float64
	}{
		{"In.P + N", true, false, 12, 0},
		{"get(In.P, 7)", false, true, 0, 7},
		{"In.P * 2", true, false, 4, 0},
		{"get(In.P, N) + len(In.Q)", false, true, 0, 10},
		{"[In.P, N][0]", true, false, 2, 0},
		{"len(S) + len(In.Q)", true, true, 1, 1},
	}
	n := 0
	for pi := range progs {
		for start := 0; start < 2; start++ {
			for mode := 0; mode < 3; mode++ {
				n++
				if !c.Mine(n) {
					continue
				}
				pi, start, mode := pi, start, mode
				c.Case(fmt.Sprintf("nested-struct-nilness/%d/%d/%d", pi, start, mode), func() {
					ex := yae.NewExpr()
					if mode == 2 {
						ex.UseClosureCompiler()
					}
					for round := 0; round < 6; round++ {
						present := (round+start)%2 == 0
						for _, k := range []int{pi, (pi + 1 + round) % len(progs)} {
							p := progs[k]
							two := 2.0
							h := c16Host{N: 10, S: "s", In: c16In{Q: []float64{}}}
							if present {
								h.In.P = &two
							}
							var host interface{} = h
							if round%3 == 2 {
								host = &h
							}
							c.Count("optional_misuse_programs", 1)
							what := fmt.Sprintf("%q over a struct host whose nested pointer field is %s (call %d in this process order, mode %d)", p.src, map[bool]string{true: "present", false: "absent"}[present], round+1, mode)
							var v *val.Val
							var err error
							func() {
								defer func() {
									if r := recover(); r != nil {
										err = fmt.Errorf("panic: %v", r)
									}
								}()
								if mode == 0 {
									v, err = yae.Eval(p.src, host)
									return
								}
								var cl yae.Callable
								if cl, err = ex.Compile(p.src, host); err == nil {
									v, err = cl(host)
								}
							}()
							wantOK, wantV := p.okPres, p.valPres
							if !present {
								wantOK, wantV = p.okAbs, p.valAb
							}
							if wantOK != (err == nil) {
								if err == nil {
									c.Violation("optional-accepted", fmt.Sprintf("accepted (value %s): %s", safeStr(v), what), nil)
								} else {
									c.Violation("optional-host-data", fmt.Sprintf("refused (%v): %s", err, what), nil)
								}
								return
							}
							if err == nil && (v.Type.Kind != types.KNum || v.Num().V != wantV) {
								c.Violation("optional-value", fmt.Sprintf("%s yields %s; expected %v", what, safeStr(v), wantV), nil)
								return
							}
						}
					}
					c.Distinct(fmt.Sprintf("nested-struct-nilness/%d/%d/%d", pi, start, mode))
				})
			}
		}
	}
}

// deepOptionalMisuse: the optional sits below d list / map / object levels of
// an otherwise identical type, for every d up to 70.
func deepOptionalMisuse(c *run.Ctx) {
	for d := 1; d <= 70; d++ {
		if !c.Mine(d) || (c.Tier == "quick" && d > 12 && d%4 != 1 && (d < 44 || d > 52)) {
			continue
		}
		d := d
		c.Case(fmt.Sprintf("deep-optional/%d", d), func() {
			wrapT := func(t *ref.Ty, k int) *ref.Ty {
				switch k % 3 {
				case 0:
					return ref.TList(t)
				case 1:
					return ref.TMap(ref.TStr, t)
				}
				return ref.TObj(ref.F("f", t))
			}
			wrapV := func(v *ref.V, k int) *ref.V {
				switch k % 3 {
				case 0:
					return ref.VList(v.T, v)
				case 1:
					return ref.VMap(ref.TStr, v.T, ref.KV{K: ref.VStr("k"), V: v})
				}
				return ref.VObj(ref.TObj(ref.F("f", v.T)), v)
			}
			for style := 0; style < 2; style++ {
				plain, opt := ref.VNum(1), ref.VJust(ref.TNum, ref.VNum(1))
				for k := 0; k < d; k++ {
					kk := k
					if style == 0 {
						kk = 0 // lists only
					}
					plain, opt = wrapV(plain, kk), wrapV(opt, kk)
					_ = wrapT
				}
				env := bridge.NewEnv()
				env.Put("x", plain)
				env.Put("y", opt)
				env.Put("b", ref.VBool(true))
				X, Y := func() *ref.E { return ref.Ident("x") }, func() *ref.E { return ref.Ident("y") }
				progs := []*ref.E{
					ref.List(X(), Y()), ref.Call("if", ref.Ident("b"), X(), Y()), ref.CallF(ref.FTernary, "if", ref.Ident("b"), Y(), X()),
					ref.CallF(ref.FInfix, "==", X(), Y()), ref.Call("get", ref.List(X()), ref.Num("0", 0), Y()),
					ref.Map([]*ref.E{ref.Str("p"), ref.Str("q")}, []*ref.E{Y(), X()}),
				}
				for pi, e := range progs {
					checkOptionalMisuse(c, fmt.Sprintf("deep-optional/%d/%d/%d", d, style, pi), e, env, fmt.Sprintf("a type with the optional %d levels down meets the same type without it", d))
				}
			}
		})
	}
}

// untaggedPointers: nil-ness of an untagged pointer decides between T and
// maybe[T]; absence must never be read as a T.
func untaggedPointers(c *run.Ctx) {
	for i := 0; i < c.Pick(400, 40000); i++ {
		if !c.Mine(i) {
			continue
		}
		c.Case(fmt.Sprintf("untagged/%d", i), func() {
			r := c.Rng("untagged", i)
			mk := func(present bool, v int) *int {
				if !present {
					return nil
				}
				x := v
				return &x
			}
			n := 1 + r.Intn(4)
			pres := make([]bool, n)
			all, none := true, true
			items := make([]c16Item, n)
			for k := range items {
				pres[k] = r.Intn(3) != 0
				all = all && pres[k]
				none = none && !pres[k]
				items[k] = c16Item{mk(pres[k], 10+k), fmt.Sprint("i", k)}
			}
			host := map[string]interface{}{"items": items}
			idx := r.Intn(n)
			// the same presence pattern as a map of structs
			byName := map[string]c16Item{}
			for k, it := range items {
				byName[fmt.Sprint("k", k)] = it
			}
			mhost := map[string]interface{}{"items": byName}
			mplus := fmt.Sprintf("items[\"k%d\"].score + 1", idx)
			if v, err := yae.Eval(mplus, mhost); err == nil {
				if !all {
					c.Violation("absent-read-as-value", fmt.Sprintf("%q over a map of items with score present=%v evaluates to %s although some score is absent", mplus, pres, v), nil)
				} else if v.String() != fmt.Sprint(10+idx+1) {
					c.Violation("optional-host-data", fmt.Sprintf("%q over a map of items = %s", mplus, v), nil)
				}
			} else if all {
				c.Violation("optional-host-data", fmt.Sprintf("%q over a map of items (all present) is refused: %v", mplus, err), nil)
			}
			c.Count("optional_programs", 1)
			plus := fmt.Sprintf("items[%d].score + 1", idx)
			viaGet := fmt.Sprintf("get(items[%d].score, 0 - 1)", idx)
			ev := func(src string, h interface{}) (string, bool) {
				v, err := yae.Eval(src, h)
				if err != nil {
					return "error", false
				}
				return v.String(), true
			}
			desc := fmt.Sprintf("items with score present=%v", pres)
			if out, ok := ev(plus, host); ok {
				if !all {
					c.Violation("absent-read-as-value", fmt.Sprintf("%q over %s evaluates to %s although some score is absent (the data is inconsistent or optional)", plus, desc, out), nil)
				} else if out != fmt.Sprint(10+idx+1) {
					c.Violation("optional-host-data", fmt.Sprintf("%q over %s = %s", plus, desc, out), nil)
				}
			} else if all {
				c.Violation("optional-host-data", fmt.Sprintf("%q over %s (all present) is refused", plus, desc), nil)
			}
			if out, ok := ev(viaGet, host); ok {
				if !none {
					c.Violation("absent-read-as-value", fmt.Sprintf("%q over %s evaluates to %s although the scores are not uniformly absent", viaGet, desc, out), nil)
				} else if out != "-1" {
					c.Violation("optional-host-data", fmt.Sprintf("%q over %s = %s", viaGet, desc, out), nil)
				}
			} else if none {
				c.Violation("optional-host-data", fmt.Sprintf("%q over %s (all absent) is refused", viaGet, desc), nil)
			}
			// one Callable, presence changing between invocations
			b := 2.5
			cl, err := yae.NewExpr().Compile("bonus + 1", c16Rec{Bonus: &b})
			if err != nil {
				c.Violation("optional-host-data", "compile against a present bonus fails: "+err.Error(), nil)
				return
			}
			for k := 0; k < 4; k++ {
				present := (k+i)%2 == 0
				rec := c16Rec{}
				if present {
					rec.Bonus = &b
				}
				v, err := cl(rec)
				if present && (err != nil || v.String() != "3.5") {
					c.Violation("optional-host-data", fmt.Sprintf("call %d with a present bonus: %v %v", k, v, err), nil)
				}
				if !present && err == nil {
					c.Violation("absent-read-as-value", fmt.Sprintf("call %d of \"bonus + 1\" with an absent bonus evaluates to %s", k, v), nil)
				}
			}
			c.Distinct(desc + plus)
		})
	}
}

func init() {
	run.Register(&run.Spec{
		ID: "C16", Run: runC16, Level: "exploration",
		Rule: "(1) every built-in / operator x every parameter position whose type is not a bare type variable: the call with that argument replaced by an optional of exactly the required type, in call / infix / prefix / method / ternary form (exhaustive over the function table); (2) 21 hand-listed misuse shapes (member / subscript on optionals, optional as index or key, optional fields nested in objects / list elements in arithmetic, == on optionals, optional mixed with plain in lists / branches, defaults of the wrong type, nested optionals): all must be refused at the type-check stage; " +
			"(3) random programs over environments with present / absent optionals as variables and nested in objects, lists and maps, forced get(optional, default) consumptions, run on 4 back ends of the plain pipeline plus 2 long-lived public engines from raw environments and through yae.Eval over reflection-built structs with nil / non-nil pointers, slices and maps: never an internal fault, value == reference evaluator; (4) host slices of structs with untagged pointer fields in every presence pattern and one Callable invoked with present / absent values alternately: an absent value is never read as a value of the underlying type. (6) a struct host embedding by value a struct with a pointer field, present / absent alternately through Eval and two engines; (7) the optional below 1..70 list / map / object levels of an otherwise identical type; (5) one engine and one *types.Env updated in place so that a variable alternates between T and maybe[T], the same ten texts recompiled after every update on three back ends: acceptance follows the environment of that moment. distinct = distinct source",
		Assume:    []string{"parameters that are bare type variables (string, print, if branches, list elements, fst ...) accept optionals by design; the reference checker decides there"},
		MinEvents: 1000, EventKey: "optional_programs",
	})
}
