package props

import (
	"fmt"

	"verif/harness/bridge"
	"verif/harness/ref"
	"verif/harness/run"
)

func oracleC11(c *run.Ctx, o *ProgObs) {
	vmb := o.Back[bridge.VM]
	if vmb == nil || vmb.CompErr != nil {
		return
	}
	c.Count("programs_verified", 1)
	if o.BCErr != nil {
		c.Violation("bytecode-structure", fmt.Sprintf("emitted bytecode is not structurally safe: %v :: %s", o.BCErr, short(o.Case.Src)), o.witness())
		return
	}
	if o.BC != nil {
		c.Count("instructions_verified", o.BC.Instructions)
		c.Count("thunk_bodies_verified", o.BC.Thunks)
		c.Count("jumps_verified", o.BC.Jumps)
	}
}

// constPadCases put K constants in front of every intrinsic so that operand
// bytes take every value (an operand byte equal to an opcode must stay an
// operand).
func constPadCases() []*ProgCase {
	var out []*ProgCase
	env := bridge.NewEnv()
	env.Put("b", ref.VBool(true))
	env.Put("n", ref.VNum(2))
	env.Put("s", ref.VStr("x"))
	not := func(e *ref.E) *ref.E { return ref.CallF(ref.FPrefix, "!", e) }
	b, n, s := ref.Ident("b"), ref.Ident("n"), ref.Ident("s")
	tails := []func() *ref.E{
		func() *ref.E { return not(b) },
		func() *ref.E { return not(not(b)) },
		func() *ref.E { return not(ref.Call("if", b, not(b), not(b))) },
		func() *ref.E { return ref.CallF(ref.FInfix, "&&", b, not(b)) },
		func() *ref.E { return ref.CallF(ref.FInfix, "==", ref.CallF(ref.FPrefix, "-", n), ref.Call("abs", n)) },
		func() *ref.E { return ref.CallF(ref.FInfix, "<", ref.Call("len", s), ref.CallF(ref.FInfix, "+", n, n)) },
		func() *ref.E { return ref.Call("lzIf", b, not(b), b) },
		func() *ref.E { return ref.Call("isset", ref.Map([]*ref.E{s}, []*ref.E{n}), s) },
	}
	for k := 0; k <= 600; k++ {
		if k > 300 && k%7 != 0 {
			continue
		}
		for ti, tl := range tails {
			if (k+ti)%4 != 0 && k > 70 {
				continue
			}
			xs := make([]*ref.E, 0, k+1)
			for i := 0; i < k; i++ {
				xs = append(xs, ref.Bool(i%2 == 0))
			}
			xs = append(xs, tl())
			e := ref.Subscript(ref.List(xs...), numLit(k))
			out = append(out, &ProgCase{ID: fmt.Sprintf("constpad/%d/%d", k, ti), Src: ref.Render(e), E: e, Env: env, User: ref.UserFuns(),
				Back: []bridge.Backend{bridge.VM, bridge.Closure}})
		}
	}
	return out
}

// hugeCases cross the 16-bit limits; built directly as trees.
func hugeCases() []*ProgCase {
	var out []*ProgCase
	env := bridge.NewEnv()
	env.Put("b", ref.VBool(true))
	env.Put("n", ref.VNum(1))
	add := func(id string, e *ref.E) {
		out = append(out, &ProgCase{ID: "huge/" + id, Src: "<tree " + id + ">", E: e, Env: env, User: ref.UserFuns(), AsAST: true,
			Back: []bridge.Backend{bridge.VM, bridge.Closure}})
	}
	nums := func(k int) *ref.E { return wideList(k, func(i int) *ref.E { return ref.Ident("n") }) }
	lits := func(k int) *ref.E { return wideList(k, func(i int) *ref.E { return numLit(i % 10) }) }
	for _, k := range []int{65534, 65535, 65536, 70000} {
		add(fmt.Sprintf("members/%d", k), ref.Call("len", nums(k)))
	}
	for _, k := range []int{65000, 65530, 65536} {
		add(fmt.Sprintf("constants/%d", k), ref.Call("len", lits(k)))
	}
	// conditionals whose branches span more than 64 KiB of code (3 bytes per literal)
	for _, k := range []int{300, 5000, 21000, 21840, 21850, 22000, 30000} {
		add(fmt.Sprintf("cond-then/%d", k), ref.Call("if", ref.Ident("b"), ref.Call("len", lits(k)), numLit(0)))
		add(fmt.Sprintf("cond-else/%d", k), ref.Call("if", ref.Ident("b"), numLit(0), ref.Call("len", lits(k))))
		add(fmt.Sprintf("cond-ternary-false/%d", k), ref.Call("if", ref.CallF(ref.FPrefix, "!", ref.Ident("b")), ref.Call("len", lits(k)), ref.Call("len", lits(k/2))))
		add(fmt.Sprintf("and/%d", k), ref.Call("&&", ref.Ident("b"), ref.Call("==", ref.Call("len", lits(k)), numLit(k))))
		add(fmt.Sprintf("lazy-user/%d", k), ref.Call("lzIf", ref.Ident("b"), ref.Call("len", lits(k)), numLit(0)))
	}
	// a small conditional located after more than 64 KiB of straight-line code
	for _, k := range []int{21800, 21840, 21841, 21842, 21845, 21850, 22000} {
		add(fmt.Sprintf("cond-after/%d", k), ref.Call("+", ref.Call("len", lits(k)), ref.Call("if", ref.Ident("b"), numLit(1), numLit(2))))
		add(fmt.Sprintf("and-after/%d", k), ref.Call("if", ref.Call("&&", ref.Call("==", ref.Call("len", lits(k)), numLit(k)), ref.Ident("b")), numLit(1), numLit(2)))
	}
	return out
}

// spellingCases: one spelling used as field name, variable name, string
// literal and map key in one program
func spellingCases() []*ProgCase {
	var out []*ProgCase
	env := bridge.NewEnv()
	env.Put("id", ref.VNum(7))
	env.Put("b", ref.VBool(true))
	o := func() *ref.E { return ref.Obj([]string{"id"}, []*ref.E{ref.Num("1", 1)}) }
	m := func() *ref.E { return ref.Map([]*ref.E{ref.Str("id")}, []*ref.E{ref.Num("2", 2)}) }
	progs := []*ref.E{
		ref.CallF(ref.FInfix, "+", ref.Member(o(), "id"), ref.Subscript(m(), ref.Str("id"))),
		ref.CallF(ref.FInfix, "+", ref.Subscript(m(), ref.Str("id")), ref.Member(o(), "id")),
		ref.CallF(ref.FInfix, "+", ref.Ident("id"), ref.Member(o(), "id")),
		ref.CallF(ref.FInfix, "+", ref.Member(o(), "id"), ref.Ident("id")),
		ref.CallF(ref.FInfix, "+", ref.Call("len", ref.Str("id")), ref.CallF(ref.FInfix, "+", ref.Ident("id"), ref.Member(o(), "id"))),
		ref.Call("lzIf", ref.Ident("b"), ref.Member(o(), "id"), ref.Subscript(m(), ref.Str("id"))),
		ref.Call("lzIf", ref.Ident("b"), ref.Subscript(m(), ref.Str("id")), ref.Member(o(), "id")),
		ref.Call("if", ref.Call("isset", m(), ref.Str("id")), ref.Member(o(), "id"), ref.Ident("id")),
	}
	for i, e := range progs {
		out = append(out, &ProgCase{ID: fmt.Sprintf("spelling/%d", i), Src: ref.Render(e), E: e, Env: env, User: ref.UserFuns()})
	}
	return out
}

func init() {
	run.Register(&run.Spec{
		ID: "C11", Run: func(c *run.Ctx) {
			skipExecOnBadBytecode = true
			NoEngines = true // code that failed verification must not run anywhere
			user := ref.UserFuns()
			opt := ref.GenOpt{MaxDepth: 6, PFail: 0.03, PSugar: 0.6, PBoundary: 0.1, PGroup: 0.02, UserFuns: true}
			both := func(c *run.Ctx, o *ProgObs) { oracleC11(c, o); compareBackends(c, o) }
			stream(c, "mixed", c.Pick(8000, 250000), opt, user, 0, oracleC11)
			stream(c, "mutant", c.Pick(3000, 60000), opt, user, 1.0, oracleC11)
			fixedCases(c, wideCases(), oracleC11)
			fixedCases(c, lazyCases(), oracleC11)
			fixedCases(c, wideThunkCases(), oracleC11)
			fixedCases(c, constPadCases(), both)
			fixedCases(c, spellingCases(), both)
			fixedCases(c, boundaryCases(), oracleC11)
			fixedCases(c, hugeCases(), both)
			fixedCases(c, dynCallBranchCases(c.Thorough(), c.Mine), both)
			fixedCases(c, fullStackCallCases(), oracleC11)
		},
		Level: "exploration",
		Rule: "the bytecode (hook: code bytes, constant pool, deferred-argument bodies) of every program the compiler emits for: random programs with user strict / lazy functions, accepted mutants, size families (40..1100 members / nesting, 254..256 arguments, branches > 255 bytes), constant-pad families (0..600 constants before each intrinsic so operand bytes take every opcode value), nested lazy calls to depth 3, dynamic calls with 40..70 (thorough: 1..120) arguments inside a branch padded by 0..130 (200) additions, host / dynamic calls made with exactly 20..1044 operands live, and tree-built programs with 65 534..70 000 members / constants and conditionals spanning > 64 KiB; " +
			"monitor = independent instruction-set description + abstract interpreter: complete decode, known opcodes, in-range operands of the right dynamic kind, argument counts, deferred bodies verified recursively, every jump forward to an instruction boundary, equal stack depth on all paths, never negative, exactly 1 at the final return, no unreachable or trailing code; constpad / huge cases are also executed and compared with the closure back end. distinct = distinct source or case id",
		Assume:    []string{"the instruction-set description in bridge/bytecode.go is the specification; opcode numbering is taken from the hook's name table"},
		MinEvents: 3000, EventKey: "programs_verified", Stall: 0,
	})
}
