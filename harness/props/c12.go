package props

import (
	"fmt"
	"math/rand"
	"reflect"
	"runtime"
	"strings"
	"time"

	yae "github.com/goghcrow/yae"
	"github.com/goghcrow/yae/types"
	"github.com/goghcrow/yae/val"

	"verif/harness/bridge"
	"verif/harness/ref"
	"verif/harness/run"
)

type apiOut struct {
	panicked string
	err      error
	ok       bool
}

func guard(f func() error) (o apiOut) {
	defer func() {
		if r := recover(); r != nil {
			o.panicked = fmt.Sprint(r)
		}
	}()
	o.err = f()
	o.ok = o.err == nil
	return
}

func mallocs() uint64 {
	var ms runtime.MemStats
	runtime.ReadMemStats(&ms)
	return ms.Mallocs
}

// apiAll drives every public entry point with one source and one host value.
func apiAll(c *run.Ctx, src string, env interface{}, label string) {
	c.Count("api_calls", 4)
	report := func(api string, o apiOut) {
		if o.panicked != "" {
			c.Violation("api-panic", fmt.Sprintf("%s(%s, %s) panics instead of returning an error: %s", api, quoteShort(src), label, o.panicked), nil)
		}
	}
	report("Eval", guard(func() error { _, err := yae.Eval(src, env); return err }))
	report("Debug", guard(func() error { _, _, err := yae.Debug(src, env); return err }))
	var cl yae.Callable
	report("Compile", guard(func() error {
		var err error
		cl, err = yae.NewExpr().Compile(src, env)
		return err
	}))
	if cl != nil {
		report("Callable", guard(func() error { _, err := cl(env); return err }))
		report("Callable(nil)", guard(func() error { _, err := cl(nil); return err }))
	}
	report("Compile(closure)", guard(func() error {
		c2, err := yae.NewExpr().UseClosureCompiler().Compile(src, env)
		if err == nil {
			_, err = c2(env)
		}
		return err
	}))
}

func quoteShort(s string) string {
	q := fmt.Sprintf("%q", s)
	if len(q) > 200 {
		q = q[:200] + "…"
	}
	return q
}

var c12Alphabet = []string{"a", "b", "xs", "1", "0", "2.5", "1e3", "0x1F", "\"s\"", "\"", "`r`", "`", "'2020-01-01'", "'", "true", "false", "and", "not",
	"+", "-", "*", "/", "%", "^", "==", "!=", "<", "<=", ">", "&&", "||", "!", "?", ":", ".", ",", "(", ")", "[", "]", "{", "}", " ", "\n", "\t",
	"if", "len", "get", "max", "string", "union", "print", "strtotime", "match", "isset", "晓", "é", "\\", "#", "@", "$", "~", "|", "&", "=", ";", "\x00", "\xff"}

// host types that are recursive only through embedded (anonymous) fields
type embTree struct {
	*embTree
	V int
}

type embA struct {
	*embB
	N float64
}

type embB struct {
	*embA
	S string
}

type embList struct {
	embInner
	Tail []embList
}

type embInner struct {
	Up *embList
	K  int
}

type selfRef struct {
	Name string
	Next *selfRef
	Kids []*selfRef
}

func deepSlice(d int) interface{} {
	var v interface{} = 1
	for i := 0; i < d; i++ {
		v = []interface{}{v}
	}
	return v
}

// hostile host values
func c12Hosts() map[string]interface{} {
	var nilPtr *struct{ A int }
	var nilMap map[string]interface{}
	var nilSlice []int
	pp := &nilPtr
	ppp := &pp
	one := 1
	p1 := &one
	p2 := &p1
	loop := &selfRef{Name: "loop"}
	loop.Next = loop
	loop.Kids = []*selfRef{loop}
	selfMap := map[string]interface{}{}
	selfMap["self"] = selfMap
	selfSlice := make([]interface{}, 1)
	selfSlice[0] = selfSlice
	var iface interface{} = &nilPtr
	type withBad struct {
		A int
		C chan int
		F func()
		Z complex128
		U uintptr
	}
	cx, ch, fn, up, ok := map[string]complex128{}, map[string]chan int{}, map[string]func(){}, map[string]uintptr{}, map[string]int{}
	nested := map[string]map[string]complex64{}
	for i := 0; i < 40; i++ {
		k := fmt.Sprintf("k%02d", i)
		cx[k], ch[k], fn[k], up[k], ok[k] = complex(float64(i), 1), make(chan int), func() {}, uintptr(i), i
		nested[k] = map[string]complex64{"z": 1}
	}
	cx15, cx16, cx17 := map[string]complex128{}, map[string]complex128{}, map[string]complex128{}
	for i := 0; i < 17; i++ {
		k := fmt.Sprintf("k%02d", i)
		if i < 15 {
			cx15[k] = 1
		}
		if i < 16 {
			cx16[k] = 1
		}
		cx17[k] = 1
	}
	embLoop := &embTree{V: 1}
	embLoop.embTree = embLoop
	return map[string]interface{}{
		"embedded self pointer (nil)": embTree{V: 1}, "pointer to embedded self pointer": &embTree{embTree: &embTree{V: 2}, V: 1}, "embedded self pointer cycle": embLoop,
		"embedded mutual recursion": embA{N: 1}, "embedded mutual recursion inside map": map[string]interface{}{"n": &embA{embB: &embB{S: "s"}, N: 1}},
		"embedded struct with back pointer": embList{Tail: []embList{{}}}, "slice of embedded recursion": []embTree{{V: 1}, {V: 2}},
		"typed map of 40 complex": cx, "typed map of 40 chan": ch, "typed map of 40 func": fn, "typed map of 40 uintptr": up, "typed map of 40 int": ok,
		"typed map of 40 maps of complex": nested, "typed map of 15 complex": cx15, "typed map of 16 complex": cx16, "typed map of 17 complex": cx17,
		"untyped nil": nil, "typed nil pointer": nilPtr, "pointer to nil pointer": pp, "pointer to pointer to nil pointer": ppp,
		"nil map": nilMap, "pointer to nil map": &nilMap, "nil slice": nilSlice, "int": 42, "string": "s", "slice": []int{1},
		"nested pointers": map[string]interface{}{"n": p2, "k": &p2},
		"nil inside map":  map[string]interface{}{"n": nil}, "nil pointer inside map": map[string]interface{}{"n": nilPtr},
		"nil slice inside map": map[string]interface{}{"xs": nilSlice}, "nil map inside map": map[string]interface{}{"m": nilMap},
		"chan": map[string]interface{}{"n": make(chan int)}, "func": map[string]interface{}{"n": func() {}}, "complex": map[string]interface{}{"n": complex(1, 2)},
		"uintptr": map[string]interface{}{"n": uintptr(1)}, "struct with unsupported kinds": withBad{}, "pointer to struct with unsupported kinds": &withBad{},
		"self-referential struct pointer": loop, "map containing itself": selfMap, "slice containing itself": map[string]interface{}{"xs": selfSlice},
		"slice nested 100 deep": map[string]interface{}{"xs": deepSlice(100)}, "slice nested 101 deep": map[string]interface{}{"xs": deepSlice(101)},
		"slice nested 5000 deep":                map[string]interface{}{"xs": deepSlice(5000)},
		"types.Env where host data is expected": types.NewEnv(), "val.Env where host data is expected": val.NewEnv(),
		"mixed interface slice": map[string]interface{}{"xs": []interface{}{1, "a"}}, "empty interface slice": map[string]interface{}{"xs": []interface{}{}},
		"map with non-string keys": map[int]int{1: 2}, "map[interface{}]": map[interface{}]interface{}{"n": 1, 2: 3},
		"interface holding pointer to nil pointer": &iface, "time": map[string]interface{}{"t": time.Unix(0, 0), "pt": &time.Time{}},
		"normal": map[string]interface{}{"n": 1, "xs": []int{1, 2}, "s": "x", "b": true},
		"array":  map[string]interface{}{"xs": [3]int{1, 2, 3}}, "empty struct": struct{}{}, "unexported fields": struct{ a int }{1},
	}
}

type family struct {
	name string
	src  func(d int) string
	max  int // deepest d
}

func rep(s string, n int) string { return strings.Repeat(s, n) }

func c12Families(thorough bool) []family {
	deep := 14
	if thorough {
		deep = 18
	}
	return []family{
		{"open brackets", func(d int) string { return rep("[", d) }, deep},
		{"nested lists", func(d int) string { return rep("[", d) + "1" + rep("]", d) }, deep + 10},
		{"nested maps", func(d int) string { return rep("[", d) + "1:1" + rep("]:1", d-1) + "]" }, deep + 10},
		{"nested maps unbalanced", func(d int) string { return rep("[", d) + "1:1" + rep("]:1", d/2) }, deep},
		{"nested map values", func(d int) string { return rep("[1:", d) + "1" + rep("]", d) }, deep + 10},
		{"nested objects", func(d int) string { return rep("{a:", d) + "1" + rep("}", d) }, deep + 10},
		{"open braces", func(d int) string { return rep("{a:", d) }, deep + 10},
		{"parentheses", func(d int) string { return rep("(", d) + "1" + rep(")", d) }, deep + 30},
		{"open parentheses", func(d int) string { return rep("(", d) }, deep + 30},
		{"nested calls", func(d int) string { return rep("abs(", d) + "1" + rep(")", d) }, deep + 10},
		{"nested ternaries", func(d int) string { return rep("true?", d) + "1" + rep(":1", d) }, deep + 10},
		{"ternary in condition", func(d int) string { return rep("(true?", d) + "true" + rep(":false)", d) + "?1:2" }, deep},
		{"unary chain", func(d int) string { return rep("-", d) + "1" }, deep + 30},
		{"not chain", func(d int) string { return rep("!", d) + "true" }, deep + 30},
		{"binary chain", func(d int) string { return "1" + rep("+1", d) }, deep + 30},
		{"right assoc chain", func(d int) string { return "2" + rep("^2", d) }, deep + 10},
		{"subscript chain", func(d int) string { return rep("[", 1) + "[1]" + rep("][0]", 1) + rep("[0]", d) }, deep + 10},
		{"member chain", func(d int) string { return "{a:1}" + rep(".a", d) }, deep + 10},
		{"method chain", func(d int) string { return "n" + rep(".abs()", d) }, deep + 10},
		{"method chain with arguments", func(d int) string { return "n" + rep(".max(1)", d) }, deep + 10},
		{"method chain on literal", func(d int) string { return "[1]" + rep(".union([2])", d) }, deep + 10},
		{"method inside arguments", func(d int) string { return rep("n.max(", d) + "1" + rep(")", d) }, deep + 10},
		{"list in subscript", func(d int) string { return "[1]" + rep("[[0]", d) + rep("[0]]", d) }, deep},
		{"mixed open", func(d int) string { return rep("[{a:(", d) }, deep},
		{"lists of calls", func(d int) string { return rep("[len(", d) + "[]" + rep(")]", d) }, deep},
		{"if chains", func(d int) string { return rep("if(true,", d) + "1" + rep(",1)", d) }, deep + 10},
		{"and-or chains", func(d int) string { return "true" + rep("&&(true||false)", d) }, deep + 10},
		{"strings", func(d int) string { return "\"" + rep("a", d) + "\"+" + "`" + rep("b", d) + "`" }, deep + 30},
		{"unterminated string", func(d int) string { return rep("\"a", d) }, deep + 10},
		{"object in nested lists as argument", func(d int) string { return "len(" + rep("[", d) + "{a:1}" + rep("]", d) + ")" }, deep + 10},
		{"object in nested map values as argument", func(d int) string { return "len(" + rep("[1:", d) + "{a:1, b:\"x\"}" + rep("]", d) + ")" }, deep + 10},
		{"object in nested lists as operand", func(d int) string {
			return rep("[", d) + "{a:1}" + rep("]", d) + "==" + rep("[", d) + "{a:2}" + rep("]", d)
		}, deep + 10},
		{"object in mixed nests as argument", func(d int) string { return "string(" + rep("[[1:", d/2) + "{a:[1]}" + rep("]]", d/2) + ")" }, deep + 10},
		{"time literals", func(d int) string { return rep("'2020-01-01'-", d) + "'@0'" }, deep},
		{"long numbers", func(d int) string { return rep("9", d) + "." + rep("9", d) + "e" + rep("9", 1) }, deep + 30},
	}
}

func runC12(c *run.Ctx) {
	hosts := c12Hosts()
	var hostNames []string
	for k := range hosts {
		hostNames = append(hostNames, k)
	}
	sortStrings(hostNames)
	// 1. every hostile host value with a few sources
	for i, hn := range hostNames {
		if !c.Mine(i) {
			continue
		}
		hn := hn
		c.Case("host/"+hn, func() {
			for _, src := range []string{"1", "n", "xs[0]", "n + 1", "len(xs)", "xs", "m", ""} {
				c.Input(src + " with " + hn)
				apiAll(c, src, hosts[hn], hn)
			}
			c.Distinct("host/" + hn)
		})
	}
	// 2. random strings over a token / byte alphabet
	n := c.Pick(12000, 400000)
	normal := hosts["normal"]
	for i := 0; i < n; i++ {
		if !c.Mine(i) {
			continue
		}
		r := c.Rng("random", i)
		c.Case(fmt.Sprintf("random/%d", i), func() {
			var sb strings.Builder
			k := 1 + r.Intn(24)
			if r.Intn(4) == 0 { // raw bytes / runes
				for j := 0; j < k*2; j++ {
					if r.Intn(2) == 0 {
						sb.WriteByte(byte(r.Intn(256)))
					} else {
						sb.WriteRune(rune(r.Intn(0x3000)))
					}
				}
			} else {
				for j := 0; j < k; j++ {
					sb.WriteString(c12Alphabet[r.Intn(len(c12Alphabet))])
				}
			}
			src := sb.String()
			if len([]rune(src)) > 64 {
				src = string([]rune(src)[:64])
			}
			c.Input(src)
			before := mallocs()
			apiAll(c, src, normal, "normal")
			cost := mallocs() - before
			nr := float64(len([]rune(src)) + 10)
			if lim := 3e6 + 400*nr*nr*nr; float64(cost) > lim {
				c.Violation("api-cost", fmt.Sprintf("%s (%d runes) costs %d allocations (envelope %.0f)", quoteShort(src), len([]rune(src)), cost, lim), nil)
			}
			c.Distinct(src)
		})
	}
	// 3. token-level mutations of valid programs, run-time failures through Callable and Debug
	opt := ref.GenOpt{MaxDepth: 4, PFail: 0.2, PSugar: 0.7, PBoundary: 0.4, PGroup: 0.05, NoTime: false}
	m := c.Pick(6000, 150000)
	for i := 0; i < m; i++ {
		if !c.Mine(i) {
			continue
		}
		c.Case(fmt.Sprintf("mutated/%d", i), func() {
			r := c.Rng("mutated", i)
			g := &ref.Gen{R: r, FT: ref.Builtins(), Opt: opt, Loc: time.Local}
			g.EnvT = map[string]*ref.Ty{"n": ref.TNum, "s": ref.TStr, "b": ref.TBool, "xs": ref.TList(ref.TNum)}
			g.Vars = []string{"n", "s", "b", "xs"}
			src := ref.Render(g.Expr(g.Type(1), 1+r.Intn(4)))
			for k := r.Intn(3); k > 0; k-- {
				src = tokenMutate(src, r)
			}
			if strings.Contains(src, "\n") && r.Intn(2) == 0 {
				src = strings.ReplaceAll(src, "\n", " ")
			}
			c.Input(src)
			apiAll(c, src, normal, "normal")
			c.Distinct(src)
			if i%1999 == 0 {
				_, err := yae.Eval(src, normal)
				c.Sample(map[string]string{"source": src, "error": fmt.Sprint(err)})
			}
		})
	}
	// 4. cost families: allocations of Compile as a function of nesting depth
	fams := c12Families(c.Thorough())
	for fi, f := range fams {
		if !c.Mine(fi) {
			continue
		}
		f := f
		c.Case("family/"+f.name, func() {
			var prev float64
			var series []string
			for d := 1; d <= f.max; d++ {
				src := f.src(d)
				c.Input(fmt.Sprintf("%s d=%d", f.name, d))
				runtime.GC()
				before := mallocs()
				o := guard(func() error {
					cl, err := yae.NewExpr().Compile(src, normal)
					if err == nil {
						_, err = cl(normal)
					}
					return err
				})
				cost := float64(mallocs() - before)
				series = append(series, fmt.Sprintf("%d:%.0f", d, cost))
				c.Count("family_measurements", 1)
				if o.panicked != "" {
					c.Violation("api-panic", fmt.Sprintf("family %q depth %d panics: %s", f.name, d, o.panicked), nil)
					return
				}
				if d > 8 && prev > 5000 && cost/prev >= 1.7 {
					c.Violation("super-polynomial-cost", fmt.Sprintf("family %q: compile+evaluate cost grows by a factor %.2f from depth %d to %d (allocations %s)", f.name, cost/prev, d-1, d, strings.Join(series, " ")), nil)
					return
				}
				prev = cost
			}
			c.Distinct("family/" + f.name)
			c.Sample(map[string]string{"family": f.name, "example": quoteShort(f.src(3)), "allocations_by_depth": strings.Join(series, " ")})
		})
	}
	// 5. deep nests (depth up to 2000) must neither crash nor exhaust the stack
	for fi, f := range fams {
		if !c.Mine(fi + 7) {
			continue
		}
		f := f
		for _, d := range []int{100, 500, 2000} {
			d := d
			c.Case(fmt.Sprintf("deep/%s/%d", f.name, d), func() {
				src := f.src(d)
				if len(src) > 20000 { // the lexer is quadratic: keep deep nests short
					return
				}
				switch f.name { // exponential-by-design-free families only; cost was judged above
				case "strings", "long numbers":
					return
				}
				// a probe at depth 20 / 21 first: a doubling family would never
				// finish at depth 100
				probe := func(k int) float64 {
					before := mallocs()
					guard(func() error { _, err := yae.NewExpr().Compile(f.src(k), normal); return err })
					return float64(mallocs() - before)
				}
				c.Input(fmt.Sprintf("%s d=20,24", f.name))
				// (four levels apart: some families only nest on every second level;
				// cubic growth gives 1.73, doubling per level 16, per second level 4)
				if a, b := probe(20), probe(24); a > 5000 && b/a >= 2.5 {
					c.Violation("super-polynomial-cost", fmt.Sprintf("family %q: cost grows by a factor %.2f from depth 20 to 24 (%.0f -> %.0f allocations); depth %d not attempted", f.name, b/a, a, b, d), nil)
					return
				}
				c.Input(fmt.Sprintf("%s d=%d", f.name, d))
				o := guard(func() error { _, err := yae.NewExpr().Compile(src, normal); return err })
				c.Count("deep_nests", 1)
				if o.panicked != "" {
					c.Violation("api-panic", fmt.Sprintf("family %q depth %d panics: %s", f.name, d, o.panicked), nil)
				}
			})
		}
	}
	// 6. conditionals whose code crosses the 64 KiB jump range: an error or a
	// value, never a loop (two cases; the quadratic lexer makes them slow)
	for i, n := range []int{16381} {
		if !c.Mine(i + 3) {
			continue
		}
		n := n
		c.Case(fmt.Sprintf("big-conditional/%d", n), func() {
			for k, src := range []string{"b ? 1" + rep("+1", n) + " : 0", "!b ? 0 : 1" + rep("+1", n)} {
				c.Input(fmt.Sprintf("conditional with %d terms in one branch (%d)", n, k))
				c.Count("api_calls", 1)
				if o := guard(func() error { _, err := yae.Eval(src, normal); return err }); o.panicked != "" {
					c.Violation("api-panic", fmt.Sprintf("Eval of a conditional with %d terms panics: %s", n, o.panicked), nil)
				}
			}
			c.Distinct(fmt.Sprintf("big-conditional/%d", n))
		})
	}
	// 7. conditionals placed across the 64 KiB jump range, size by size (built
	// as trees: the quadratic lexer would make a sweep of sources too slow):
	// the VM either refuses ("overflow") or computes the value; it never loops
	// (a loop is seen by the parent as a stall) and never jumps elsewhere
	for i, n := 0, 21780; n <= 21880; i, n = i+1, n+1 {
		if !c.Mine(i) || (!c.Thorough() && (n < 21825 || n > 21850)) {
			continue
		}
		n := n
		c.Case(fmt.Sprintf("jump-range/%d", n), func() {
			env := bridge.NewEnv()
			env.Put("b", ref.VBool(true))
			one := func(int) *ref.E { return ref.Num("1", 1) }
			shapes := []*ref.E{
				ref.CallF(ref.FTernary, "if", ref.CallF(ref.FInfix, ">", ref.Call("len", wideList(n, one)), ref.Num("0", 0)), ref.Num("1", 1), ref.Num("2", 2)),
				ref.Call("if", ref.Ident("b"), ref.Call("len", wideList(n, one)), ref.Num("0", 0)),
				ref.CallF(ref.FInfix, "&&", ref.CallF(ref.FInfix, ">", ref.Call("len", wideList(n-3, one)), ref.Num("0", 0)), ref.Ident("b")),
				ref.CallF(ref.FInfix, "+", ref.Call("len", wideList(n-8, one)), ref.Call("if", ref.Ident("b"), ref.Num("5", 5), ref.Num("6", 6))),
			}
			for si, e := range shapes {
				c.Input(fmt.Sprintf("conditional around a %d-element list (shape %d)", n, si))
				c.Count("api_calls", 1)
				pc := &ProgCase{ID: fmt.Sprintf("jump-range/%d/%d", n, si), Src: fmt.Sprintf("<conditional around %d elements, shape %d>", n, si), E: e, Env: env, AsAST: true, Back: []bridge.Backend{bridge.VM, bridge.Closure}}
				o := RunProg(pc)
				for bi, b := range o.Back {
					if b == nil || b.Skipped != "" {
						continue
					}
					name := bridge.Backend(bi).String()
					if b.CompErr != nil {
						if b.CompErr.Stage != "codegen" {
							c.Violation("api-panic", fmt.Sprintf("%s: %s is refused at stage %s: %s", name, pc.Src, b.CompErr.Stage, b.CompErr.Msg), nil)
						}
						c.Count("jump_range_refusals", 1)
						continue
					}
					if o.RefOut.V != nil && (b.Res.Class != bridge.OValue || b.Ill != nil || !ref.Same(b.RV, o.RefOut.V)) {
						c.Violation("wrong-result-at-jump-range", fmt.Sprintf("%s: %s ends %s; the value is %s", name, pc.Src, b.describe(), ref.Dump(o.RefOut.V)), nil)
					}
				}
			}
			c.Distinct(fmt.Sprintf("jump-range/%d", n))
		})
	}
	// 8. types nested around an object as call / operator arguments (literal and host data)
	c.Case("host-nest-cost", func() {
		if !c.Mine(11) {
			return
		}
		type leaf struct {
			A float64 `yae:"a"`
		}
		var prev float64
		var series []string
		maxd := 22
		if c.Thorough() {
			maxd = 26
		}
		for d := 1; d <= maxd; d++ {
			t := reflect.TypeOf(leaf{})
			v := reflect.ValueOf(leaf{1})
			for k := 0; k < d; k++ {
				if k%2 == 0 {
					s := reflect.MakeSlice(reflect.SliceOf(t), 1, 1)
					s.Index(0).Set(v)
					t, v = s.Type(), s
				} else {
					m := reflect.MakeMap(reflect.MapOf(reflect.TypeOf(""), t))
					m.SetMapIndex(reflect.ValueOf("k"), v)
					t, v = m.Type(), m
				}
			}
			env := map[string]interface{}{"v": v.Interface()}
			c.Input(fmt.Sprintf("len(v) + (v == v ? 1 : 0) over host data nested %d deep around a struct", d))
			runtime.GC()
			before := mallocs()
			o := guard(func() error {
				cl, err := yae.NewExpr().Compile("len(v) + (v == v ? 1 : 0)", env)
				if err == nil {
					_, err = cl(env)
				}
				return err
			})
			cost := float64(mallocs() - before)
			series = append(series, fmt.Sprintf("%d:%.0f", d, cost))
			c.Count("family_measurements", 1)
			if o.panicked != "" {
				c.Violation("api-panic", fmt.Sprintf("host data nested %d deep around a struct: panic %s", d, o.panicked), nil)
				return
			}
			if d > 8 && prev > 5000 && cost/prev >= 1.7 {
				c.Violation("super-polynomial-cost", fmt.Sprintf("host data nested around a struct: compile+evaluate cost grows by a factor %.2f from depth %d to %d (allocations %s)", cost/prev, d-1, d, strings.Join(series, " ")), nil)
				return
			}
			prev = cost
		}
		c.Distinct("host-nest-cost")
	})
	_ = rand.Int
}

func init() {
	run.Register(&run.Spec{
		ID: "C12", Run: runC12, Level: "exploration",
		Rule: "Eval, Debug, Compile (vm and closure compilers) and the returned Callable driven with: random strings <= 64 runes over a 70-piece token / operator / quote / non-ASCII / NUL / invalid-UTF-8 alphabet and raw bytes; token-level mutations of generated programs with 20% failing sub-terms (run-time failures through Callable and Debug); 49 hostile host values (types recursive through embedded fields only, untyped nil, typed nil pointer, pointer to nil pointer, nil map / slice at top level and nested, chan, func, complex, uintptr, self-referential struct, map / slice containing itself, slices nested 100 / 101 / 5000 deep, *types.Env / *val.Env as host data, mixed / empty interface slices, non-string map keys, unexported fields); 31 nesting families (list / map nests around an object as call or operator argument, also as host data; open / balanced brackets, maps, objects, parentheses, calls, ternaries, unary / binary chains, member / subscript chains, strings, time literals) measured per depth d, and depth 100 / 500 / 2000; conditionals placed across the 64 KiB jump range size by size (21780..21880 list elements, four shapes, built as trees): refusal or the right value; " +
			"monitor: any panic escaping an entry point; process death (stack exhaustion, fatal error) and stalls seen by the parent; logical cost = heap allocations (runtime.MemStats.Mallocs delta): single input <= 3e6 + 400 (n+10)^3, family growth ratio cost(d+1)/cost(d) < 1.7 for d > 8 (polynomial growth gives <= 1.42, doubling gives 2). distinct = distinct input",
		Assume: []string{"termination is restated as bounded cost: no wall-clock reading enters a verdict; a stall is confirmed by re-running the case alone", "time and cost of the quadratic lexer are polynomial and therefore allowed"},
		Builds: []string{"asan"}, SanFrac: 8,
		MinEvents: 20000, EventKey: "api_calls", Stall: 150 * time.Second,
	})
}
