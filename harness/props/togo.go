package props

import (
	"fmt"
	"math/rand"
	"reflect"

	"verif/harness/ref"
)

// goStyle chooses among equally-shaped Go representations.
type goStyle struct {
	r         *rand.Rand
	intNums   bool // integral numbers as int instead of float64
	arrays    bool // lists as arrays
	ptrs      bool // extra pointer indirections
	untaggedP bool // optional fields as untagged pointers (nil <=> absent changes the type)
}

func (s goStyle) goType(t *ref.Ty) reflect.Type {
	switch t.K {
	case ref.KNum:
		return reflect.TypeOf(float64(0))
	case ref.KStr:
		return reflect.TypeOf("")
	case ref.KBool:
		return reflect.TypeOf(true)
	case ref.KTime:
		return tTime
	case ref.KList:
		return reflect.SliceOf(s.goType(t.El))
	case ref.KMap:
		return reflect.MapOf(s.goType(t.Key), s.goType(t.Val))
	case ref.KMaybe:
		return reflect.PtrTo(s.goType(t.El))
	case ref.KObj:
		fs := make([]reflect.StructField, len(t.Fs))
		for i, f := range t.Fs {
			tag := fmt.Sprintf(`yae:"%s"`, f.Name)
			ft := f.T
			if f.T.K == ref.KMaybe {
				tag = fmt.Sprintf(`yae:"%s,maybe"`, f.Name)
				ft = f.T
			}
			fs[i] = reflect.StructField{Name: fmt.Sprintf("F%d", i), Type: s.goType(ft), Tag: reflect.StructTag(tag)}
		}
		return reflect.StructOf(fs)
	}
	panic("togo: no Go type for " + t.Canon())
}

// goValue builds a Go value of goType(v.T) holding v. Maybe values are only
// supported as object fields (pointer fields tagged maybe).
func (s goStyle) goValue(v *ref.V) reflect.Value {
	gt := s.goType(v.T)
	switch v.T.K {
	case ref.KNum:
		return reflect.ValueOf(v.N)
	case ref.KStr:
		return reflect.ValueOf(v.S)
	case ref.KBool:
		return reflect.ValueOf(v.B)
	case ref.KTime:
		return reflect.ValueOf(v.Tm)
	case ref.KList:
		out := reflect.MakeSlice(gt, len(v.L), len(v.L))
		for i, x := range v.L {
			out.Index(i).Set(s.goValueAs(x, v.T.El))
		}
		return out
	case ref.KMap:
		out := reflect.MakeMap(gt)
		for _, kv := range v.M {
			out.SetMapIndex(s.goValue(kv.K), s.goValueAs(kv.V, v.T.Val))
		}
		return out
	case ref.KMaybe:
		if v.P == nil {
			return reflect.Zero(gt)
		}
		p := reflect.New(gt.Elem())
		p.Elem().Set(s.goValueAs(v.P, v.T.El))
		return p
	case ref.KObj:
		out := reflect.New(gt).Elem()
		for i := range v.T.Fs {
			out.Field(i).Set(s.goValueAs(v.O[i], v.T.Fs[i].T))
		}
		return out
	}
	panic("togo: no Go value for " + v.T.Canon())
}

// goValueAs converts v into the Go type of the declared (equal) type: values
// whose own object layout differs are re-laid-out by field name.
func (s goStyle) goValueAs(v *ref.V, declared *ref.Ty) reflect.Value {
	return s.goValue(relayoutAs(v, declared))
}

func relayoutAs(v *ref.V, t *ref.Ty) *ref.V {
	switch t.K {
	case ref.KList:
		out := &ref.V{T: t}
		for _, x := range v.L {
			out.L = append(out.L, relayoutAs(x, t.El))
		}
		return out
	case ref.KMap:
		out := &ref.V{T: t}
		for _, kv := range v.M {
			out.M = append(out.M, ref.KV{K: kv.K, V: relayoutAs(kv.V, t.Val)})
		}
		return out
	case ref.KObj:
		out := &ref.V{T: t}
		for _, f := range t.Fs {
			out.O = append(out.O, relayoutAs(v.FieldVal(f.Name), f.T))
		}
		return out
	case ref.KMaybe:
		if v.P == nil {
			return ref.VNothing(t.El)
		}
		return ref.VJust(t.El, relayoutAs(v.P, t.El))
	}
	return v
}

// goEnvMap / goEnvStruct build host environments from reference bindings.
func (s goStyle) goEnvMap(names []string, vs map[string]*ref.V) map[string]interface{} {
	out := map[string]interface{}{}
	for _, n := range names {
		out[n] = s.goValue(vs[n]).Interface()
	}
	return out
}

func (s goStyle) goEnvStruct(names []string, vs map[string]*ref.V, order []int) interface{} {
	fs := make([]ref.Fld, 0, len(names))
	ov := &ref.V{}
	for _, i := range order {
		n := names[i]
		fs = append(fs, ref.Fld{Name: n, T: vs[n].T})
		ov.O = append(ov.O, vs[n])
	}
	ov.T = &ref.Ty{K: ref.KObj, Fs: fs}
	return s.goValue(ov).Interface()
}

// hostable reports whether goValue supports the type (maybe only as field).
func hostable(t *ref.Ty, field bool) bool {
	switch t.K {
	case ref.KMaybe:
		return field && hostable(t.El, false)
	case ref.KList:
		return hostable(t.El, false)
	case ref.KMap:
		return t.Key.IsPrim() && hostable(t.Val, false)
	case ref.KObj:
		for _, f := range t.Fs {
			if !hostable(f.T, true) {
				return false
			}
		}
		return true
	case ref.KBot, ref.KFun, ref.KVar:
		return false
	}
	return true
}
