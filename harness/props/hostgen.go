package props

import (
	"fmt"
	"math"
	"math/rand"
	"reflect"
	"time"

	"verif/harness/ref"
)

// hostShape is a Go type built by reflection, together with the type the
// conversion must report for it and a generator of (Go value, expected value).
type hostShape struct {
	GoT reflect.Type
	// Ty is the documented type of every value of this Go type whose nil-able
	// parts are non-nil or declared optional (nil when the shape contains an
	// interface-typed part: the type then depends on the value).
	Ty   *ref.Ty
	Desc string
	// Gen draws a value; full=false may leave untagged nil-able parts nil
	// (which changes the type), full=true respects the precondition.
	Gen func(r *rand.Rand, full bool) (reflect.Value, *ref.V)
}

var (
	tTime  = reflect.TypeOf(time.Time{})
	tIface = reflect.TypeOf((*interface{})(nil)).Elem()
)

type numKind struct {
	t    reflect.Type
	pool []interface{}
}

var numKinds = []numKind{
	{reflect.TypeOf(int(0)), []interface{}{int(0), int(1), int(-1), int(42), int(math.MaxInt64), int(math.MinInt64), int(1 << 53), int(1<<53 + 1)}},
	{reflect.TypeOf(int8(0)), []interface{}{int8(0), int8(127), int8(-128)}},
	{reflect.TypeOf(int16(0)), []interface{}{int16(0), int16(32767), int16(-32768)}},
	{reflect.TypeOf(int32(0)), []interface{}{int32(7), int32(math.MaxInt32), int32(math.MinInt32)}},
	{reflect.TypeOf(int64(0)), []interface{}{int64(0), int64(math.MaxInt64), int64(math.MinInt64), int64(-5)}},
	{reflect.TypeOf(uint(0)), []interface{}{uint(0), uint(3), uint(math.MaxUint64), uint(1 << 63), uint(1<<63 - 1)}},
	{reflect.TypeOf(uint8(0)), []interface{}{uint8(0), uint8(255)}},
	{reflect.TypeOf(uint16(0)), []interface{}{uint16(65535)}},
	{reflect.TypeOf(uint32(0)), []interface{}{uint32(math.MaxUint32), uint32(1)}},
	{reflect.TypeOf(uint64(0)), []interface{}{uint64(0), uint64(math.MaxUint64), uint64(1 << 63), uint64(1<<63 + 2048), uint64(1<<63 - 1), uint64(9)}},
	{reflect.TypeOf(float32(0)), []interface{}{float32(0), float32(0.5), float32(-1.25), float32(math.MaxFloat32), float32(0.1)}},
	{reflect.TypeOf(float64(0)), []interface{}{float64(0), 0.5, -1e-9, 1e300, math.Copysign(0, -1), 2.5, 1e19}},
}

func numToFloat(v reflect.Value) float64 {
	switch v.Kind() {
	case reflect.Int, reflect.Int8, reflect.Int16, reflect.Int32, reflect.Int64:
		return float64(v.Int())
	case reflect.Uint, reflect.Uint8, reflect.Uint16, reflect.Uint32, reflect.Uint64:
		return float64(v.Uint())
	}
	return v.Float()
}

var hostStrs = []string{"", "a", "晓明", "q\"uote", "line\nbreak", "\xff", "x y"}
var hostTimes = []time.Time{time.Unix(0, 0), time.Unix(1655296245, 0), time.Unix(1655296245, 5e8), time.Unix(-1, 0), time.Unix(4102444800, 0)}

type hostGen struct {
	r        *rand.Rand
	seq      int
	noIface  bool // no interface-typed parts
	maxDepth int
	bigDims  int // fixed-size (array) dimensions of threshold size in this shape: at most one
}

// hostInBig counts the threshold-size collections currently being filled:
// collections generated inside one stay small, so that a value holds
// hundreds, not tens of thousands, of leaves (one case = seconds).
var hostInBig int

// hostBigSize: sizes around typical fast-path thresholds
func hostBigSize(r *rand.Rand) int {
	base := []int{8, 16, 32, 64, 65, 100, 128, 256}[r.Intn(8)]
	n := base - 1 + r.Intn(3)
	if hostInBig > 0 {
		return 5 + n%4
	}
	return n
}

func (h *hostGen) prim() *hostShape {
	switch h.r.Intn(5) {
	case 0:
		return &hostShape{GoT: reflect.TypeOf(true), Ty: ref.TBool, Desc: "bool", Gen: func(r *rand.Rand, _ bool) (reflect.Value, *ref.V) {
			b := r.Intn(2) == 0
			return reflect.ValueOf(b), ref.VBool(b)
		}}
	case 1:
		return &hostShape{GoT: reflect.TypeOf(""), Ty: ref.TStr, Desc: "string", Gen: func(r *rand.Rand, _ bool) (reflect.Value, *ref.V) {
			s := hostStrs[r.Intn(len(hostStrs))]
			return reflect.ValueOf(s), ref.VStr(s)
		}}
	case 2:
		return &hostShape{GoT: tTime, Ty: ref.TTime, Desc: "time.Time", Gen: func(r *rand.Rand, _ bool) (reflect.Value, *ref.V) {
			t := hostTimes[r.Intn(len(hostTimes))]
			return reflect.ValueOf(t), ref.VTime(t)
		}}
	default:
		k := numKinds[h.r.Intn(len(numKinds))]
		return &hostShape{GoT: k.t, Ty: ref.TNum, Desc: k.t.String(), Gen: func(r *rand.Rand, _ bool) (reflect.Value, *ref.V) {
			v := reflect.ValueOf(k.pool[r.Intn(len(k.pool))])
			return v, ref.VNum(numToFloat(v))
		}}
	}
}

func (h *hostGen) keyShape() *hostShape {
	for {
		p := h.prim()
		// float keys that print alike as doubles are not generated (inherent to "numbers as doubles")
		if p.GoT.Kind() == reflect.Float32 || p.GoT.Kind() == reflect.Float64 || p.GoT.Kind() == reflect.Bool {
			continue
		}
		return p
	}
}

func (h *hostGen) shape(d int) *hostShape {
	if d <= 0 {
		return h.prim()
	}
	switch c := h.r.Intn(12); {
	case c < 3:
		return h.prim()
	case c == 3: // pointer
		in := h.shape(d - 1)
		return &hostShape{GoT: reflect.PtrTo(in.GoT), Ty: in.Ty, Desc: "*" + in.Desc, Gen: func(r *rand.Rand, full bool) (reflect.Value, *ref.V) {
			v, e := in.Gen(r, full)
			p := reflect.New(in.GoT)
			p.Elem().Set(v)
			return p, e
		}}
	case c == 4 || c == 5: // slice / array
		in := h.shape(d - 1)
		isArr := h.r.Intn(4) == 0
		n := h.r.Intn(4)
		if h.r.Intn(8) == 0 {
			n = hostBigSize(h.r)
			if isArr {
				// arrays have their size in the type: two nested big dimensions
				// would make every value of the shape tens of thousands of elements
				if h.bigDims > 0 {
					n = 5 + h.r.Intn(4)
				}
				h.bigDims++
			}
		}
		gt := reflect.SliceOf(in.GoT)
		if isArr {
			gt = reflect.ArrayOf(n, in.GoT)
		}
		var ty *ref.Ty
		if in.Ty != nil {
			ty = ref.TList(in.Ty)
		}
		return &hostShape{GoT: gt, Ty: ty, Desc: fmt.Sprintf("[%v]%s", isArr, in.Desc), Gen: func(r *rand.Rand, full bool) (reflect.Value, *ref.V) {
			k := n
			var out reflect.Value
			if isArr {
				out = reflect.New(gt).Elem()
			} else {
				k = r.Intn(4)
				if r.Intn(8) == 0 {
					k = hostBigSize(r)
				}
				out = reflect.MakeSlice(gt, k, k)
			}
			ev := &ref.V{}
			var elT *ref.Ty
			if k > 12 {
				hostInBig++
				defer func() { hostInBig-- }()
			}
			if k > 4 && r.Intn(2) == 0 {
				// a large collection of one repeated element, whose untagged
				// nil-able parts may be nil (uniformly, so the types agree)
				v, e := in.Gen(r, full)
				if e == nil {
					return out, nil
				}
				for i := 0; i < k; i++ {
					out.Index(i).Set(v)
					ev.L = append(ev.L, e)
				}
				ev.T = ref.TList(e.T)
				return out, ev
			}
			for i := 0; i < k; i++ {
				v, e := in.Gen(r, true) // elements must agree in type
				out.Index(i).Set(v)
				if e == nil {
					return out, nil // an element without static type (empty interface container inside)
				}
				ev.L = append(ev.L, e)
				elT = e.T
			}
			if elT == nil {
				elT = in.Ty
			}
			if elT == nil {
				return out, nil // empty container of interface type: no static type
			}
			ev.T = ref.TList(elT)
			return out, ev
		}}
	case c == 6: // map
		ks, in := h.keyShape(), h.shape(d-1)
		gt := reflect.MapOf(ks.GoT, in.GoT)
		var ty *ref.Ty
		if in.Ty != nil {
			ty = ref.TMap(ks.Ty, in.Ty)
		}
		return &hostShape{GoT: gt, Ty: ty, Desc: "map[" + ks.Desc + "]" + in.Desc, Gen: func(r *rand.Rand, full bool) (reflect.Value, *ref.V) {
			out := reflect.MakeMap(gt)
			ev := &ref.V{}
			var vT *ref.Ty
			cnt := r.Intn(4)
			if r.Intn(10) == 0 {
				cnt = hostBigSize(r) // (distinct keys permitting)
			}
			if cnt > 12 {
				hostInBig++
				defer func() { hostInBig-- }()
			}
			for i := cnt; i > 0; i-- {
				kv, ke := ks.Gen(r, true)
				vv, ve := in.Gen(r, true)
				if ve == nil {
					out.SetMapIndex(kv, vv)
					return out, nil
				}
				if _, dup := ev.MapGet(ke); dup {
					continue
				}
				out.SetMapIndex(kv, vv)
				ev.M = append(ev.M, ref.KV{K: ke, V: ve})
				vT = ve.T
			}
			if vT == nil {
				vT = in.Ty
			}
			if vT == nil {
				return out, nil
			}
			ev.T = ref.TMap(ks.Ty, vT)
			return out, ev
		}}
	case c == 7 && !h.noIface: // interface-typed part
		in := h.shape(d - 1)
		return &hostShape{GoT: tIface, Ty: nil, Desc: "interface{" + in.Desc + "}", Gen: func(r *rand.Rand, full bool) (reflect.Value, *ref.V) {
			v, e := in.Gen(r, full)
			b := reflect.New(tIface).Elem()
			b.Set(v)
			return b, e
		}}
	default: // struct
		n := 1 + h.r.Intn(4)
		if h.r.Intn(12) == 0 { // wide structs: sizes around lookup-structure thresholds
			n = []int{7, 8, 9, 10, 15, 16, 17, 32, 33, 65}[h.r.Intn(10)]
		}
		type fld struct {
			sh      *hostShape
			name    string
			maybe   bool
			nilable bool
		}
		fs := make([]fld, n)
		sfs := make([]reflect.StructField, n)
		stable := true
		tyFs := make([]ref.Fld, n)
		names := []string{"a", "b", "名", "x1", "score", "Bonus", "w", "h", "items", "t"}
		h.r.Shuffle(len(names), func(i, j int) { names[i], names[j] = names[j], names[i] })
		for i := len(names); i < n; i++ {
			names = append(names, fmt.Sprintf("f%d", i))
		}
		for i := range fs {
			in := h.shape(d - 1)
			if i >= 4 {
				in = h.prim() // (the extra fields of wide structs stay small)
			}
			f := fld{sh: in, name: names[i]}
			k := in.GoT.Kind()
			f.nilable = k == reflect.Ptr || k == reflect.Slice || k == reflect.Map || k == reflect.Interface
			tag := ""
			goName := fmt.Sprintf("F%d", i)
			switch h.r.Intn(4) {
			case 0: // no tag: the Go field name is the field name
				f.name = goName
			case 1:
				tag = fmt.Sprintf(`yae:"%s,maybe"`, f.name)
				f.maybe = true
			case 2:
				tag = fmt.Sprintf(`yae:" %s , MAYBE "`, f.name)
				f.maybe = true
			default:
				tag = fmt.Sprintf(`yae:"%s"`, f.name)
			}
			fs[i] = f
			sfs[i] = reflect.StructField{Name: goName, Type: in.GoT, Tag: reflect.StructTag(tag)}
			if in.Ty == nil {
				stable = false
			} else if f.maybe {
				tyFs[i] = ref.Fld{Name: f.name, T: ref.TMaybe(in.Ty)}
			} else {
				tyFs[i] = ref.Fld{Name: f.name, T: in.Ty}
			}
		}
		gt := reflect.StructOf(sfs)
		var ty *ref.Ty
		if stable {
			ty = &ref.Ty{K: ref.KObj, Fs: tyFs}
		}
		return &hostShape{GoT: gt, Ty: ty, Desc: gt.String(), Gen: func(r *rand.Rand, full bool) (reflect.Value, *ref.V) {
			out := reflect.New(gt).Elem()
			ev := &ref.V{T: &ref.Ty{K: ref.KObj}}
			for i, f := range fs {
				// nil-able parts: nil only where declared optional, or (when the
				// precondition is waived) anywhere
				leaveNil := f.nilable && ((f.maybe && r.Intn(2) == 0) || (!full && r.Intn(3) == 0))
				if leaveNil && f.sh.Ty == nil {
					leaveNil = false // static type of an interface part is unknown
				}
				var fe *ref.V
				if leaveNil {
					fe = ref.VNothing(f.sh.Ty)
				} else {
					v, e := f.sh.Gen(r, full)
					if e == nil {
						return out, nil
					}
					out.Field(i).Set(v)
					fe = e
					if f.maybe {
						fe = ref.VJust(e.T, e)
					}
				}
				ev.T.Fs = append(ev.T.Fs, ref.Fld{Name: f.name, T: fe.T})
				ev.O = append(ev.O, fe)
			}
			return out, ev
		}}
	}
}
