package props

import (
	"fmt"
	"runtime"
	"sync"
	"sync/atomic"

	yae "github.com/goghcrow/yae"
	"github.com/goghcrow/yae/parser/oper"
	"github.com/goghcrow/yae/types"
	"github.com/goghcrow/yae/val"

	"verif/harness/run"
)

// thread-safe, state-free host functions (the tracing wrappers of the other
// checks share an observer and must not be used here: the monitor's own
// state must not be the race)
func c14Funs() []*val.Val {
	a := types.TyVar("a")
	b := types.TyVar("b")
	wh := types.Obj([]types.Field{{Name: "w", Val: types.Num}, {Name: "h", Val: types.Num}})
	return []*val.Val{
		val.LazyFun(types.Fun("lzIf", []*types.Type{types.Bool, a, a}, a), func(x ...*val.Val) *val.Val {
			if x[0].Fun().Call().Bool().V {
				return x[1].Fun().Call()
			}
			return x[2].Fun().Call()
		}),
		val.Fun(types.Fun("fst", []*types.Type{a, b}, a), func(x ...*val.Val) *val.Val { return x[0] }),
		val.Fun(types.Fun("area", []*types.Type{wh}, types.Num), func(x ...*val.Val) *val.Val {
			w, _ := x[0].Obj().Get("w")
			h, _ := x[0].Obj().Get("h")
			return val.Num(w.Num().V * h.Num().V)
		}),
		val.Fun(types.Fun("mix", []*types.Type{types.Num, types.Num, types.Num}, types.Num), func(x ...*val.Val) *val.Val {
			return val.Num(x[0].Num().V*1e6 + x[1].Num().V*1e3 + x[2].Num().V)
		}),
	}
}

var c14Sources = []string{
	"n + k * 2",
	"mix(n, k, n - k) + mix(k, n, k * 2)",
	"mix(xs[0], xs[1], len(xs)) * 1000 + mix(n, n, n)",
	"if(n > k, s + \"!\", string(xs))",
	"lzIf(n < k, mix(n, k, 1), mix(k, n, 2)) + lzIf(b, n, k)",
	"area({w: n, h: k}) + area({h: n + 1, w: k + 1})",
	"fst([n, k], s)[1] + max(xs)",
	"len(union(xs, [n, k])) + len(s)",
	"string([s: n, \"z\": k]) + string(m)",
	"'2022-06-15 12:30:45' - strtotime(\"2022-06-15\") + n",
	"m[\"a\"] + get(m, s, k) + (isset(m, \"b\") ? n : k)",
	"[n, k, n + k][2] == n + k && !b || n % 7 == 3",
	"xs[n]",
	"match(\"^a+$\", s) ? 1 : 0",
	"n ^ 2 / (k + 1) - abs(-n) + round(k / 3) + min(n, k)",
	"{a: n, b: {c: [s, s + s], d: k}}.b.c[1] + string({x: xs}.x)",
}

func c14Env(g, j int) map[string]interface{} {
	n := float64((g*7+j*3)%11 + 1)
	k := float64((g*5+j)%9 + 1)
	return map[string]interface{}{
		"n": n, "k": k, "s": []string{"a", "aa", "b", "晓"}[(g+j)%4], "b": (g+j)%2 == 0,
		"xs": []float64{n, k, n + k, float64(g), float64(j)},
		"m":  map[string]float64{"a": n, "b": k, "aa": n * k},
	}
}

func outcomeOf(v *val.Val, err error) string {
	if err != nil {
		return "ERR " + string(classifyLoose(err.Error()))
	}
	return "VAL " + v.String()
}

func classifyLoose(msg string) string {
	if len(msg) > 40 {
		return msg[:40]
	}
	return msg
}

func c14Engine(closureBackend bool) *yae.Expr {
	e := yae.NewExpr()
	if closureBackend {
		e.UseClosureCompiler()
	}
	e.RegisterFun(c14Funs()...)
	return e
}

// release goroutines from a barrier with PRNG-determined spin offsets
func c14Run(nG int, spins []int, body func(g int)) {
	var wg sync.WaitGroup
	var gate int32
	for g := 0; g < nG; g++ {
		wg.Add(1)
		go func(g int) {
			defer wg.Done()
			for atomic.LoadInt32(&gate) == 0 {
				runtime.Gosched()
			}
			x := 0
			for i := 0; i < spins[g%len(spins)]; i++ {
				x += i
			}
			_ = x
			body(g)
		}(g)
	}
	atomic.StoreInt32(&gate, 1)
	wg.Wait()
}

// engines with two different operator tables compiling concurrently
func c14OperatorTables(c *run.Ctx, caseNo *int, rep int) {
	*caseNo++
	if !c.Mine(*caseNo) {
		return
	}
	c.Case(fmt.Sprintf("optables/%d", rep), func() {
		r := c.Rng("optables", *caseNo)
		cmp3 := val.Fun(types.Fun("<=>", []*types.Type{types.Num, types.Num}, types.Num), func(x ...*val.Val) *val.Val {
			a, b := x[0].Num().V, x[1].Num().V
			switch {
			case a < b:
				return val.Num(-1)
			case a > b:
				return val.Num(1)
			}
			return val.Num(0)
		})
		arrow := val.Fun(types.Fun("=>", []*types.Type{types.Bool, types.Bool}, types.Bool), func(x ...*val.Val) *val.Val {
			return val.Bool(!x[0].Bool().V || x[1].Bool().V)
		})
		mkA := func() *yae.Expr {
			return c14Engine(false).RegisterOperator(oper.Operator{Kind: "<=>", BP: oper.BP_CMP, Fixity: oper.INFIX_N}).RegisterFun(cmp3)
		}
		mkB := func() *yae.Expr {
			return c14Engine(true).RegisterOperator(oper.Operator{Kind: "=>", BP: oper.BP_LOGIC_OR, Fixity: oper.INFIX_R}).RegisterFun(arrow)
		}
		srcA := []string{"n <=> k", "(n <=> k) + (k <=> n)", "n <= k", "xs[0] <=> xs[1] <=> 0 == true || true"}
		srcB := []string{"b => n > k", "n >= k => b => true", "n <= k", "b => b"}
		expect := func(mk func() *yae.Expr, srcs []string) []string {
			out := make([]string, len(srcs))
			for i, s := range srcs {
				cl, err := mk().Compile(s, c14Env(1, 2))
				if err != nil {
					out[i] = "COMPILE-ERR"
					continue
				}
				out[i] = outcomeOf(cl(c14Env(3, 4)))
			}
			return out
		}
		wantA, wantB := expect(mkA, srcA), expect(mkB, srcB)
		nG := 16 + r.Intn(17)
		spins := make([]int, 11)
		for i := range spins {
			spins[i] = r.Intn(3000)
		}
		bad := make([]string, nG)
		c14Run(nG, spins, func(g int) {
			mk, srcs, want := mkA, srcA, wantA
			if g%2 == 1 {
				mk, srcs, want = mkB, srcB, wantB
			}
			for round := 0; round < 6; round++ {
				eng := mk()
				for i, s := range srcs {
					out := "COMPILE-ERR"
					cl, err := eng.Compile(s, c14Env(1, 2))
					if err == nil {
						out = outcomeOf(cl(c14Env(3, 4)))
					}
					if out != want[i] && bad[g] == "" {
						bad[g] = fmt.Sprintf("%q gives %s; alone it gives %s (%v)", s, out, want[i], err)
					}
				}
			}
		})
		c.Count("concurrent_compilations", nG*6*len(srcA))
		for g, b := range bad {
			if b != "" {
				c.Violation("concurrent-outcome", fmt.Sprintf("engines with different operator tables compiling concurrently (goroutine %d of %d): %s", g, nG, b), nil)
				return
			}
		}
		c.Distinct(fmt.Sprintf("optables/%d", nG))
	})
}

func runC14(c *run.Ctx) {
	reps := c.Pick(10, 50)
	caseNo := 0
	for rep := 0; rep < reps*3; rep++ {
		c14OperatorTables(c, &caseNo, rep)
	}
	for rep := 0; rep < reps; rep++ {
		for _, closureBackend := range []bool{false, true} {
			closureBackend := closureBackend
			backend := map[bool]string{false: "vm", true: "closure"}[closureBackend]
			// (a) one compiled expression invoked from many goroutines
			for si, src := range c14Sources {
				caseNo++
				if !c.Mine(caseNo) {
					continue
				}
				si, src, rep := si, src, rep
				c.Case(fmt.Sprintf("invoke/%s/%d/%d", backend, si, rep), func() {
					r := c.Rng("invoke", caseNo)
					nG := 16 + r.Intn(49)
					K := 20
					eng := c14Engine(closureBackend)
					cl, err := eng.Compile(src, c14Env(0, 0))
					if err != nil {
						c.Violation("concurrent-outcome", fmt.Sprintf("%q does not compile: %v", src, err), nil)
						return
					}
					// sequential outcomes first
					want := make([][]string, nG)
					for g := 0; g < nG; g++ {
						want[g] = make([]string, K)
						for j := 0; j < K; j++ {
							want[g][j] = outcomeOf(cl(c14Env(g, j)))
						}
					}
					spins := make([]int, 17)
					for i := range spins {
						spins[i] = r.Intn(3000)
					}
					got := make([][]string, nG)
					raw := r.Intn(2) == 0
					c14Run(nG, spins, func(g int) {
						got[g] = make([]string, K)
						for j := 0; j < K; j++ {
							var env interface{} = c14Env(g, j)
							if raw {
								// per-goroutine raw environment objects
								e2 := yae.NewExpr()
								_ = e2
								venv, cerr := convValEnv(env)
								if cerr == nil {
									env = venv
								}
							}
							got[g][j] = outcomeOf(cl(env))
						}
					})
					c.Count("concurrent_invocations", nG*K)
					for g := range want {
						for j := range want[g] {
							if got[g][j] != want[g][j] {
								c.Violation("concurrent-outcome", fmt.Sprintf("%s: %q invoked concurrently (goroutine %d call %d of %d goroutines) gives %s; alone it gives %s", backend, src, g, j, nG, got[g][j], want[g][j]), nil)
								return
							}
						}
					}
					c.Distinct(fmt.Sprintf("invoke/%s/%d/%d", backend, si, nG))
				})
			}
			// (b) compilations on separate engines, (c) on one engine after its first compilation
			for _, shared := range []bool{false, true} {
				caseNo++
				if !c.Mine(caseNo) {
					continue
				}
				shared, rep := shared, rep
				c.Case(fmt.Sprintf("compile/%s/shared=%v/%d", backend, shared, rep), func() {
					r := c.Rng("compile", caseNo)
					nG := 16 + r.Intn(33)
					// sequential expectation: compile + run each source on a private engine
					want := make([]string, len(c14Sources))
					for i, src := range c14Sources {
						cl, err := c14Engine(closureBackend).Compile(src, c14Env(1, 2))
						if err != nil {
							want[i] = "COMPILE-ERR"
							continue
						}
						want[i] = outcomeOf(cl(c14Env(3, 4)))
					}
					var one *yae.Expr
					if shared {
						one = c14Engine(closureBackend)
						if _, err := one.Compile("n + 1", c14Env(0, 0)); err != nil { // the first compilation has finished
							c.Violation("concurrent-outcome", "warm-up compile failed: "+err.Error(), nil)
							return
						}
					}
					spins := make([]int, 13)
					for i := range spins {
						spins[i] = r.Intn(3000)
					}
					bad := make([]string, nG)
					c14Run(nG, spins, func(g int) {
						eng := one
						if !shared {
							eng = c14Engine(closureBackend)
						}
						for k := 0; k < len(c14Sources); k++ {
							i := (g + k) % len(c14Sources)
							out := ""
							cl, err := eng.Compile(c14Sources[i], c14Env(1, 2))
							if err != nil {
								out = "COMPILE-ERR"
							} else {
								out = outcomeOf(cl(c14Env(3, 4)))
							}
							if out != want[i] && bad[g] == "" {
								bad[g] = fmt.Sprintf("%q gives %s; alone it gives %s (%v)", c14Sources[i], out, want[i], err)
							}
						}
					})
					c.Count("concurrent_compilations", nG*len(c14Sources))
					for g, b := range bad {
						if b != "" {
							c.Violation("concurrent-outcome", fmt.Sprintf("%s: concurrent compilation (shared engine=%v, goroutine %d of %d): %s", backend, shared, g, nG, b), nil)
							return
						}
					}
					c.Distinct(fmt.Sprintf("compile/%s/%v/%d", backend, shared, nG))
					if rep == 0 {
						c.Sample(map[string]interface{}{"workload": "concurrent compilation", "backend": backend, "shared_engine": shared, "goroutines": nG, "sources": len(c14Sources)})
					}
				})
			}
		}
	}
}

func init() {
	run.Register(&run.Spec{
		ID: "C14", Run: runC14, Level: "exploration",
		Rule: "each of 16 programs (mono / poly calls, lazy host and built-in functions, literals incl. time literals through cgo, maps, objects, failing subscripts) compiled once and invoked from 16-64 goroutines x 20 calls with per-call host environments or per-goroutine raw environments; 16-48 goroutines compiling all programs on separate engines, and on one engine after its first compilation; engines with two different user operator tables compiling concurrently; vm and closure compilers; barrier release with PRNG-determined spin offsets; 10 (quick) / 50 (thorough) repetitions; all under the race detector (8 -race workers cover the whole case list, GORACE halt_on_error=0, reports de-duplicated by the set of yae frames); " +
			"monitor: zero race reports, and every concurrent outcome equals the outcome of the same call made alone beforehand. distinct = (workload, backend, program, goroutine count)",
		Assume: []string{"the race detector cannot see inside the prebuilt C archive: concurrent strtotime is monitored through outcome equality only", "interleavings are those the Go scheduler produces on this machine"},
		Builds: []string{"race"}, SanFrac: 1, Workers: 4,
		MinEvents: 2000, EventKey: "concurrent_invocations",
	})
}
