package props

import (
	"fmt"
	"runtime"
	"strings"
	"sync"
	"sync/atomic"

	yae "github.com/goghcrow/yae"
	"github.com/goghcrow/yae/parser/oper"
	"github.com/goghcrow/yae/types"
	"github.com/goghcrow/yae/val"

	"verif/harness/run"
)

// thread-safe, state-free host functions (the tracing wrappers of the other
// checks share an observer and must not be used here: the monitor's own
// state must not be the race)
func c14Funs() []*val.Val {
	a := types.TyVar("a")
	b := types.TyVar("b")
	wh := types.Obj([]types.Field{{Name: "w", Val: types.Num}, {Name: "h", Val: types.Num}})
	return []*val.Val{
		val.LazyFun(types.Fun("lzIf", []*types.Type{types.Bool, a, a}, a), func(x ...*val.Val) *val.Val {
			if x[0].Fun().Call().Bool().V {
				return x[1].Fun().Call()
			}
			return x[2].Fun().Call()
		}),
		val.Fun(types.Fun("fst", []*types.Type{a, b}, a), func(x ...*val.Val) *val.Val { return x[0] }),
		val.Fun(types.Fun("area", []*types.Type{wh}, types.Num), func(x ...*val.Val) *val.Val {
			w, _ := x[0].Obj().Get("w")
			h, _ := x[0].Obj().Get("h")
			return val.Num(w.Num().V * h.Num().V)
		}),
		val.Fun(types.Fun("mix", []*types.Type{types.Num, types.Num, types.Num}, types.Num), func(x ...*val.Val) *val.Val {
			return val.Num(x[0].Num().V*1e6 + x[1].Num().V*1e3 + x[2].Num().V)
		}),
	}
}

var c14Sources = []string{
	"n + k * 2",
	"mix(n, k, n - k) + mix(k, n, k * 2)",
	"mix(xs[0], xs[1], len(xs)) * 1000 + mix(n, n, n)",
	"if(n > k, s + \"!\", string(xs))",
	"lzIf(n < k, mix(n, k, 1), mix(k, n, 2)) + lzIf(b, n, k)",
	"area({w: n, h: k}) + area({h: n + 1, w: k + 1})",
	"fst([n, k], s)[1] + max(xs)",
	"len(union(xs, [n, k])) + len(s)",
	"string([s: n, \"z\": k]) + string(m)",
	"'2022-06-15 12:30:45' - strtotime(\"2022-06-15\") + n",
	"m[\"a\"] + get(m, s, k) + (isset(m, \"b\") ? n : k)",
	"[n, k, n + k][2] == n + k && !b || n % 7 == 3",
	"xs[n]",
	"match(\"^a+$\", s) ? 1 : 0",
	"n ^ 2 / (k + 1) - abs(-n) + round(k / 3) + min(n, k)",
	"{a: n, b: {c: [s, s + s], d: k}}.b.c[1] + string({x: xs}.x)",
	// a user lazy function forced while more than 42 operands are live
	"string([n, k, 3, 4, 5, 6, 7, 8, 9, 10, 11, 12, 13, 14, 15, 16, 17, 18, 19, 20, 21, 22, 23, 24, 25, 26, 27, 28, 29, 30, 31, 32, 33, 34, 35, 36, 37, 38, 39, 40, 41, 42, 43, 44, 45, 46, 47, lzIf(n < k, n * 100, k * 100), fst(n, k)])",
	"max([3, 4, 5, 6, 7, 8, 9, 10, 11, 12, 13, 14, 15, 16, 17, 18, 19, 20, 21, 22, 23, 24, 25, 26, 27, 28, 29, 30, 31, 32, 33, 34, 35, 36, 37, 38, 39, 40, 41, 42, 43, 44, 45, 46, 47, lzIf(b, mix(n, k, 1), mix(k, n, 2))]) + len([3, 4, 5, 6, 7, 8, 9, 10, 11, 12, 13, 14, 15, 16, 17, 18, 19, 20, 21, 22, 23, 24, 25, 26, 27, 28, 29, 30, 31, 32, 33, 34, 35, 36, 37, 38, 39, 40, 41, 42, 43, 44, 45, 46, 47, lzIf(!b, 1, 2)])",
}

func c14Env(g, j int) map[string]interface{} {
	n := float64((g*7+j*3)%11 + 1)
	k := float64((g*5+j)%9 + 1)
	return map[string]interface{}{
		"n": n, "k": k, "s": []string{"a", "aa", "b", "晓"}[(g+j)%4], "b": (g+j)%2 == 0,
		"xs": []float64{n, k, n + k, float64(g), float64(j)},
		"m":  map[string]float64{"a": n, "b": k, "aa": n * k},
	}
}

func outcomeOf(v *val.Val, err error) string {
	if err != nil {
		return "ERR " + string(classifyLoose(err.Error()))
	}
	return "VAL " + v.String()
}

func classifyLoose(msg string) string {
	if len(msg) > 40 {
		return msg[:40]
	}
	return msg
}

func c14Engine(closureBackend bool) *yae.Expr {
	e := yae.NewExpr()
	if closureBackend {
		e.UseClosureCompiler()
	}
	e.RegisterFun(c14Funs()...)
	return e
}

// release goroutines from a barrier with PRNG-determined spin offsets
func c14Run(nG int, spins []int, body func(g int)) {
	var wg sync.WaitGroup
	var gate int32
	for g := 0; g < nG; g++ {
		wg.Add(1)
		go func(g int) {
			defer wg.Done()
			for atomic.LoadInt32(&gate) == 0 {
				runtime.Gosched()
			}
			x := 0
			for i := 0; i < spins[g%len(spins)]; i++ {
				x += i
			}
			_ = x
			body(g)
		}(g)
	}
	atomic.StoreInt32(&gate, 1)
	wg.Wait()
}

// engines with two different operator tables compiling concurrently
func c14OperatorTables(c *run.Ctx, caseNo *int, rep int) {
	*caseNo++
	if !c.Mine(*caseNo) {
		return
	}
	c.Case(fmt.Sprintf("optables/%d", rep), func() {
		r := c.Rng("optables", *caseNo)
		cmp3 := val.Fun(types.Fun("<=>", []*types.Type{types.Num, types.Num}, types.Num), func(x ...*val.Val) *val.Val {
			a, b := x[0].Num().V, x[1].Num().V
			switch {
			case a < b:
				return val.Num(-1)
			case a > b:
				return val.Num(1)
			}
			return val.Num(0)
		})
		arrow := val.Fun(types.Fun("=>", []*types.Type{types.Bool, types.Bool}, types.Bool), func(x ...*val.Val) *val.Val {
			return val.Bool(!x[0].Bool().V || x[1].Bool().V)
		})
		mkA := func() *yae.Expr {
			return c14Engine(false).RegisterOperator(oper.Operator{Kind: "<=>", BP: oper.BP_CMP, Fixity: oper.INFIX_N}).RegisterFun(cmp3)
		}
		mkB := func() *yae.Expr {
			return c14Engine(true).RegisterOperator(oper.Operator{Kind: "=>", BP: oper.BP_LOGIC_OR, Fixity: oper.INFIX_R}).RegisterFun(arrow)
		}
		srcA := []string{"n <=> k", "(n <=> k) + (k <=> n)", "n <= k", "xs[0] <=> xs[1] <=> 0 == true || true"}
		srcB := []string{"b => n > k", "n >= k => b => true", "n <= k", "b => b"}
		expect := func(mk func() *yae.Expr, srcs []string) []string {
			out := make([]string, len(srcs))
			for i, s := range srcs {
				cl, err := mk().Compile(s, c14Env(1, 2))
				if err != nil {
					out[i] = "COMPILE-ERR"
					continue
				}
				out[i] = outcomeOf(cl(c14Env(3, 4)))
			}
			return out
		}
		wantA, wantB := expect(mkA, srcA), expect(mkB, srcB)
		nG := 16 + r.Intn(17)
		spins := make([]int, 11)
		for i := range spins {
			spins[i] = r.Intn(3000)
		}
		bad := make([]string, nG)
		c14Run(nG, spins, func(g int) {
			mk, srcs, want := mkA, srcA, wantA
			if g%2 == 1 {
				mk, srcs, want = mkB, srcB, wantB
			}
			for round := 0; round < 6; round++ {
				eng := mk()
				for i, s := range srcs {
					out := "COMPILE-ERR"
					cl, err := eng.Compile(s, c14Env(1, 2))
					if err == nil {
						out = outcomeOf(cl(c14Env(3, 4)))
					}
					if out != want[i] && bad[g] == "" {
						bad[g] = fmt.Sprintf("%q gives %s; alone it gives %s (%v)", s, out, want[i], err)
					}
				}
			}
		})
		c.Count("concurrent_compilations", nG*6*len(srcA))
		for g, b := range bad {
			if b != "" {
				c.Violation("concurrent-outcome", fmt.Sprintf("engines with different operator tables compiling concurrently (goroutine %d of %d): %s", g, nG, b), nil)
				return
			}
		}
		c.Distinct(fmt.Sprintf("optables/%d", nG))
	})
}

type c14Wide struct {
	F1, F2, F3, F4, F5, F6, F7, F8, F9, F10, F11, F12 float64
	Name                                              string
	Tags                                              []string
}

var c14WideSources = []string{
	"w.F1 + w.F12 * w.F7 - w.F9",
	"w.Name + string(w.F11) + w.Tags[0]",
	"{a1: n, a2: k, a3: n, a4: k, a5: n, a6: k, a7: n, a8: k, a9: n + k, a10: 1, a11: 2, a12: s}.a9 + w.F3",
	"[w, w][1].F10 + {a1: 1, a2: 2, a3: 3, a4: 4, a5: 5, a6: 6, a7: 7, a8: 8, a9: 9, a10: w}.a10.F2",
	"ws[0].F4 + ws[1].F12 + len(ws[1].Tags)",
	"string(w) == string(ws[0]) ? w.F5 : ws[1].F6",
}

func c14WideEnv() map[string]interface{} {
	w := c14Wide{1, 2, 3, 4, 5, 6, 7, 8, 9, 10, 11, 12, "wide", []string{"t", "u"}}
	w2 := c14Wide{21, 22, 23, 24, 25, 26, 27, 28, 29, 30, 31, 32, "other", []string{"v"}}
	return map[string]interface{}{"n": 3.0, "k": 4.0, "s": "a", "w": w, "ws": []c14Wide{w, w2}}
}

// zone identifiers carried by time strings; each is new to the process the
// first time a case uses it
var c14Zones = strings.Fields(`Africa/Abidjan Africa/Algiers Africa/Cairo Africa/Casablanca Africa/Johannesburg Africa/Lagos Africa/Nairobi Africa/Tunis Africa/Windhoek
	America/Adak America/Anchorage America/Bogota America/Boise America/Caracas America/Chicago America/Denver America/Detroit America/Halifax America/Havana America/Jamaica
	America/Juneau America/La_Paz America/Lima America/Los_Angeles America/Managua America/Manaus America/Mexico_City America/Montevideo America/New_York America/Nome America/Panama
	America/Phoenix America/Regina America/Santiago America/Sao_Paulo America/St_Johns America/Toronto America/Vancouver America/Winnipeg Antarctica/Casey Antarctica/Davis
	Asia/Almaty Asia/Amman Asia/Baghdad Asia/Baku Asia/Bangkok Asia/Beirut Asia/Colombo Asia/Damascus Asia/Dhaka Asia/Dubai Asia/Hong_Kong Asia/Irkutsk Asia/Jakarta Asia/Jerusalem
	Asia/Kabul Asia/Karachi Asia/Kathmandu Asia/Kolkata Asia/Kuala_Lumpur Asia/Manila Asia/Novosibirsk Asia/Omsk Asia/Qatar Asia/Riyadh Asia/Seoul Asia/Singapore Asia/Taipei
	Asia/Tashkent Asia/Tbilisi Asia/Tehran Asia/Tokyo Asia/Vladivostok Asia/Yakutsk Asia/Yerevan Atlantic/Azores Atlantic/Bermuda Atlantic/Canary Atlantic/Reykjavik
	Australia/Adelaide Australia/Brisbane Australia/Darwin Australia/Hobart Australia/Melbourne Australia/Perth Australia/Sydney Europe/Amsterdam Europe/Athens Europe/Belgrade
	Europe/Berlin Europe/Brussels Europe/Bucharest Europe/Budapest Europe/Copenhagen Europe/Dublin Europe/Helsinki Europe/Istanbul Europe/Lisbon Europe/London Europe/Madrid
	Europe/Malta Europe/Minsk Europe/Moscow Europe/Oslo Europe/Paris Europe/Prague Europe/Riga Europe/Rome Europe/Sofia Europe/Stockholm Europe/Tallinn Europe/Vienna Europe/Vilnius
	Europe/Warsaw Europe/Zurich Indian/Chagos Indian/Maldives Indian/Mauritius Pacific/Apia Pacific/Auckland Pacific/Chatham Pacific/Fiji Pacific/Guam Pacific/Honolulu
	Pacific/Kiritimati Pacific/Noumea Pacific/Pago_Pago Pacific/Tahiti Pacific/Tongatapu`)

// c14Cold: nothing is evaluated on the shared objects before the goroutines
// start, so whatever the engine, the compiled expression, the types and the
// shared run-time environment build lazily is built under concurrency.
func c14Cold(c *run.Ctx, caseNo *int, rep int, closureBackend bool) {
	backend := map[bool]string{false: "vm", true: "closure"}[closureBackend]
	for si, src := range c14WideSources {
		*caseNo++
		if !c.Mine(*caseNo) {
			continue
		}
		si, src, no := si, src, *caseNo
		c.Case(fmt.Sprintf("cold-wide/%s/%d/%d", backend, si, rep), func() {
			r := c.Rng("cold", no)
			nG := 16 + r.Intn(49)
			// expectation from objects of their own
			cl0, err := c14Engine(closureBackend).Compile(src, c14WideEnv())
			if err != nil {
				c.Violation("concurrent-outcome", fmt.Sprintf("%q does not compile: %v", src, err), nil)
				return
			}
			want := outcomeOf(cl0(c14WideEnv()))
			cl, err := c14Engine(closureBackend).Compile(src, c14WideEnv())
			if err != nil {
				c.Violation("concurrent-outcome", fmt.Sprintf("%q does not compile: %v", src, err), nil)
				return
			}
			var env interface{} = c14WideEnv()
			if venv, cerr := convValEnv(env); cerr == nil && r.Intn(4) != 0 {
				env = venv // one run-time environment object shared by all goroutines
			}
			spins := make([]int, 17)
			for i := range spins {
				spins[i] = r.Intn(400)
			}
			got := make([]string, nG)
			c14Run(nG, spins, func(g int) {
				for j := 0; j < 5; j++ {
					if o := outcomeOf(cl(env)); o != want && got[g] == "" {
						got[g] = o
					}
				}
			})
			c.Count("concurrent_invocations", nG*5)
			for g, o := range got {
				if o != "" {
					c.Violation("concurrent-outcome", fmt.Sprintf("%s: %q first invoked from %d goroutines at once over one shared environment gives %s in goroutine %d; alone it gives %s", backend, src, nG, o, g, want), nil)
					return
				}
			}
			c.Distinct(fmt.Sprintf("cold-wide/%s/%d/%d", backend, si, nG))
		})
	}
	*caseNo++
	if !c.Mine(*caseNo) {
		return
	}
	no := *caseNo
	c.Case(fmt.Sprintf("cold-zones/%s/%d", backend, rep), func() {
		r := c.Rng("zones", no)
		nG := 16 + r.Intn(17)
		perG := 3
		base := (rep*2 + map[bool]int{false: 0, true: 1}[closureBackend]) * nG * perG
		cl, err := c14Engine(closureBackend).Compile("strtotime(z) - strtotime(\"2021-03-04 05:06:07 UTC\")", map[string]interface{}{"z": ""})
		if err != nil {
			c.Violation("concurrent-outcome", fmt.Sprintf("strtotime(z) does not compile: %v", err), nil)
			return
		}
		zone := func(g, j int) string { return c14Zones[(base+g*perG+j)%len(c14Zones)] }
		spins := make([]int, 17)
		for i := range spins {
			spins[i] = r.Intn(400)
		}
		got := make([][]string, nG)
		c14Run(nG, spins, func(g int) {
			for j := 0; j < perG; j++ {
				got[g] = append(got[g], outcomeOf(cl(map[string]interface{}{"z": "2021-03-04 05:06:07 " + zone(g, j)})))
			}
			// and a zone some other goroutine is meeting right now
			got[g] = append(got[g], outcomeOf(cl(map[string]interface{}{"z": "2021-03-04 05:06:07 " + zone((g+1)%nG, 0)})))
		})
		c.Count("concurrent_invocations", nG*(perG+1))
		// the same strings afterwards, one at a time
		for g := 0; g < nG; g++ {
			for j := 0; j <= perG; j++ {
				z := zone(g, j)
				if j == perG {
					z = zone((g+1)%nG, 0)
				}
				want := outcomeOf(cl(map[string]interface{}{"z": "2021-03-04 05:06:07 " + z}))
				if got[g][j] != want {
					c.Violation("concurrent-outcome", fmt.Sprintf("%s: strtotime of a time string with zone %s evaluated concurrently with %d other zone-qualified strings gives %s; alone it gives %s", backend, z, nG*perG, got[g][j], want), nil)
					return
				}
			}
		}
		c.Distinct(fmt.Sprintf("cold-zones/%s/%d", backend, nG))
	})
}

// c14Dynamic: one compiled expression with dynamically dispatched calls,
// invoked concurrently with hand-built environments that bind different
// function values.
func c14Dynamic(c *run.Ctx, caseNo *int, rep int, closureBackend bool) {
	backend := map[bool]string{false: "vm", true: "closure"}[closureBackend]
	fT := types.Fun("f", []*types.Type{types.Num}, types.Num)
	srcs := []string{"[f][0](n) + k", "fs[0](n) + fs[1](k)", "if(n > 0, f, g)(n)", "[f, g][n % 2](k) + [g, f][n % 2](k)", "get([f], 0, g)(n) * 2"}
	for si, src := range srcs {
		*caseNo++
		if !c.Mine(*caseNo) {
			continue
		}
		si, src, no := si, src, *caseNo
		c.Case(fmt.Sprintf("dynamic/%s/%d/%d", backend, si, rep), func() {
			r := c.Rng("dynamic", no)
			nG := 16 + r.Intn(33)
			tenv := types.NewEnv()
			tenv.Put("n", types.Num)
			tenv.Put("k", types.Num)
			tenv.Put("f", fT)
			tenv.Put("g", fT)
			tenv.Put("fs", types.List(fT))
			cl, err := c14Engine(closureBackend).Compile(src, tenv)
			if err != nil {
				c.Violation("concurrent-outcome", fmt.Sprintf("%q does not compile: %v", src, err), nil)
				return
			}
			mkEnv := func(g, j int) *val.Env {
				base := float64(1000 * (g + 1))
				f := val.Fun(fT, func(a ...*val.Val) *val.Val { return val.Num(base + a[0].Num().V) })
				gg := val.Fun(fT, func(a ...*val.Val) *val.Val { return val.Num(-base - a[0].Num().V*2) })
				e := val.NewEnv()
				e.Put("n", val.Num(float64(j%7+1)))
				e.Put("k", val.Num(float64(g%5+2)))
				e.Put("f", f)
				e.Put("g", gg)
				l := val.List(types.List(fT).List(), 2)
				l.List().V[0], l.List().V[1] = f, gg
				e.Put("fs", l)
				return e
			}
			want := func(g, j int) float64 {
				base := float64(1000 * (g + 1))
				n, k := float64(j%7+1), float64(g%5+2)
				f := func(x float64) float64 { return base + x }
				gg := func(x float64) float64 { return -base - x*2 }
				switch si {
				case 0:
					return f(n) + k
				case 1:
					return f(n) + gg(k)
				case 2:
					return f(n)
				case 3:
					if int(n)%2 == 0 {
						return f(k) + gg(k)
					}
					return gg(k) + f(k)
				}
				return f(n) * 2
			}
			spins := make([]int, 17)
			for i := range spins {
				spins[i] = r.Intn(300)
			}
			K := 30
			bad := make([]string, nG)
			cold := r.Intn(2) == 0
			if !cold {
				cl(mkEnv(0, 0))
			}
			c14Run(nG, spins, func(g int) {
				for j := 0; j < K; j++ {
					v, err := cl(mkEnv(g, j))
					if (err != nil || v.Num().V != want(g, j)) && bad[g] == "" {
						bad[g] = fmt.Sprintf("call %d gives %s %v, expected %v", j, safeStr(v), err, want(g, j))
					}
				}
			})
			c.Count("concurrent_invocations", nG*K)
			for g, b := range bad {
				if b != "" {
					c.Violation("concurrent-outcome", fmt.Sprintf("%s: %q invoked from %d goroutines with different function values bound (cold=%v): goroutine %d %s", backend, src, nG, cold, g, b), nil)
					return
				}
			}
			c.Distinct(fmt.Sprintf("dynamic/%s/%d/%d", backend, si, nG))
		})
	}
}

func runC14(c *run.Ctx) {
	reps := c.Pick(10, 50)
	caseNo := 0
	for rep := 0; rep < reps; rep++ {
		c14Dynamic(c, &caseNo, rep, false)
		c14Dynamic(c, &caseNo, rep, true)
	}
	for rep := 0; rep < reps; rep++ {
		c14Cold(c, &caseNo, rep, false)
		c14Cold(c, &caseNo, rep, true)
	}
	for rep := 0; rep < reps*3; rep++ {
		c14OperatorTables(c, &caseNo, rep)
	}
	for rep := 0; rep < reps; rep++ {
		for _, closureBackend := range []bool{false, true} {
			closureBackend := closureBackend
			backend := map[bool]string{false: "vm", true: "closure"}[closureBackend]
			// (a) one compiled expression invoked from many goroutines
			for si, src := range c14Sources {
				caseNo++
				if !c.Mine(caseNo) {
					continue
				}
				si, src, rep := si, src, rep
				c.Case(fmt.Sprintf("invoke/%s/%d/%d", backend, si, rep), func() {
					r := c.Rng("invoke", caseNo)
					nG := 16 + r.Intn(49)
					K := 20
					eng := c14Engine(closureBackend)
					cl, err := eng.Compile(src, c14Env(0, 0))
					if err != nil {
						c.Violation("concurrent-outcome", fmt.Sprintf("%q does not compile: %v", src, err), nil)
						return
					}
					// sequential outcomes first
					want := make([][]string, nG)
					for g := 0; g < nG; g++ {
						want[g] = make([]string, K)
						for j := 0; j < K; j++ {
							want[g][j] = outcomeOf(cl(c14Env(g, j)))
						}
					}
					spins := make([]int, 17)
					for i := range spins {
						spins[i] = r.Intn(3000)
					}
					got := make([][]string, nG)
					raw := r.Intn(2) == 0
					c14Run(nG, spins, func(g int) {
						got[g] = make([]string, K)
						for j := 0; j < K; j++ {
							var env interface{} = c14Env(g, j)
							if raw {
								// per-goroutine raw environment objects
								e2 := yae.NewExpr()
								_ = e2
								venv, cerr := convValEnv(env)
								if cerr == nil {
									env = venv
								}
							}
							got[g][j] = outcomeOf(cl(env))
						}
					})
					c.Count("concurrent_invocations", nG*K)
					for g := range want {
						for j := range want[g] {
							if got[g][j] != want[g][j] {
								c.Violation("concurrent-outcome", fmt.Sprintf("%s: %q invoked concurrently (goroutine %d call %d of %d goroutines) gives %s; alone it gives %s", backend, src, g, j, nG, got[g][j], want[g][j]), nil)
								return
							}
						}
					}
					c.Distinct(fmt.Sprintf("invoke/%s/%d/%d", backend, si, nG))
				})
			}
			// (b) compilations on separate engines, (c) on one engine after its first compilation
			for _, shared := range []bool{false, true} {
				caseNo++
				if !c.Mine(caseNo) {
					continue
				}
				shared, rep := shared, rep
				c.Case(fmt.Sprintf("compile/%s/shared=%v/%d", backend, shared, rep), func() {
					r := c.Rng("compile", caseNo)
					nG := 16 + r.Intn(33)
					// sequential expectation: compile + run each source on a private engine
					want := make([]string, len(c14Sources))
					for i, src := range c14Sources {
						cl, err := c14Engine(closureBackend).Compile(src, c14Env(1, 2))
						if err != nil {
							want[i] = "COMPILE-ERR"
							continue
						}
						want[i] = outcomeOf(cl(c14Env(3, 4)))
					}
					var one *yae.Expr
					if shared {
						one = c14Engine(closureBackend)
						if _, err := one.Compile("n + 1", c14Env(0, 0)); err != nil { // the first compilation has finished
							c.Violation("concurrent-outcome", "warm-up compile failed: "+err.Error(), nil)
							return
						}
					}
					spins := make([]int, 13)
					for i := range spins {
						spins[i] = r.Intn(3000)
					}
					bad := make([]string, nG)
					c14Run(nG, spins, func(g int) {
						eng := one
						if !shared {
							eng = c14Engine(closureBackend)
						}
						for k := 0; k < len(c14Sources); k++ {
							i := (g + k) % len(c14Sources)
							out := ""
							cl, err := eng.Compile(c14Sources[i], c14Env(1, 2))
							if err != nil {
								out = "COMPILE-ERR"
							} else {
								out = outcomeOf(cl(c14Env(3, 4)))
							}
							if out != want[i] && bad[g] == "" {
								bad[g] = fmt.Sprintf("%q gives %s; alone it gives %s (%v)", c14Sources[i], out, want[i], err)
							}
						}
					})
					c.Count("concurrent_compilations", nG*len(c14Sources))
					for g, b := range bad {
						if b != "" {
							c.Violation("concurrent-outcome", fmt.Sprintf("%s: concurrent compilation (shared engine=%v, goroutine %d of %d): %s", backend, shared, g, nG, b), nil)
							return
						}
					}
					c.Distinct(fmt.Sprintf("compile/%s/%v/%d", backend, shared, nG))
					if rep == 0 {
						c.Sample(map[string]interface{}{"workload": "concurrent compilation", "backend": backend, "shared_engine": shared, "goroutines": nG, "sources": len(c14Sources)})
					}
				})
			}
		}
	}
}

func init() {
	run.Register(&run.Spec{
		ID: "C14", Run: runC14, Level: "exploration",
		Rule: "each of 16 programs (mono / poly calls, lazy host and built-in functions, literals incl. time literals through cgo, maps, objects, failing subscripts) compiled once and invoked from 16-64 goroutines x 20 calls with per-call host environments or per-goroutine raw environments; 16-48 goroutines compiling all programs on separate engines, and on one engine after its first compilation; engines with two different user operator tables compiling concurrently; vm and closure compilers; barrier release with PRNG-determined spin offsets; 10 (quick) / 50 (thorough) repetitions; all under the race detector (8 -race workers cover the whole case list, GORACE halt_on_error=0, reports de-duplicated by the set of yae frames); " +
			"monitor: zero race reports, and every concurrent outcome equals the outcome of the same call made alone beforehand. distinct = (workload, backend, program, goroutine count)",
		Assume: []string{"cold families: objects with more than 8 fields and time strings whose zone identifier is new to the process are first evaluated from all goroutines at once (no sequential warm-up on the shared engine, compiled expression, types or environment object)", "the race detector cannot see inside the prebuilt C archive: concurrent strtotime is monitored through outcome equality only", "interleavings are those the Go scheduler produces on this machine"},
		Builds: []string{"race"}, SanFrac: 1, Workers: 4,
		MinEvents: 2000, EventKey: "concurrent_invocations",
	})
}
