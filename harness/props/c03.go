package props

import (
	"fmt"
	"strconv"
	"strings"

	"verif/harness/bridge"
	"verif/harness/ref"
	"verif/harness/run"
)

func init() {
	run.Register(&run.Spec{
		ID: "C03", Run: runC03, Level: "exploration",
		Rule: "type-directed random programs (depth<=5, built-ins + harness strict/lazy/poly/mono functions, deliberate partial-operation failures), the enumerated families (laziness, wide operands, equal instants in different time.Locations under every comparison, object layouts, colliding renderings, rendering-like string literals), " +
			"wide literals and calls across the 42/255/256/542/1024 size limits, duplicate-key maps, nested lazy calls, token-mutated sources that still compile; " +
			"each run on vm-switch, vm-callthread (hook), closure, interp; compared by exact structural value identity, failure class and ordered host-call trace. " +
			"distinct = distinct source text; non-trivial = accepted by at least one back end and containing a call/member/subscript",
		Assume:    []string{"harness host functions are deterministic", "vm-callthread is reached through the verif hook CompileCallThreaded"},
		MinEvents: 500, EventKey: "compared_executions",
	})
}

func staticSizes(e *ref.E) (nodes, maxArgs, maxMembers int) {
	e.Walk(func(x *ref.E) {
		nodes++
		switch x.K {
		case ref.ECall:
			if len(x.Args) > maxArgs {
				maxArgs = len(x.Args)
			}
		case ref.EDynCall:
			if len(x.Args)-1 > maxArgs {
				maxArgs = len(x.Args) - 1
			}
		case ref.EList, ref.EMap, ref.EObj:
			if len(x.Args) > maxMembers {
				maxMembers = len(x.Args)
			}
		}
	})
	return
}

// compareBackends is the C03 oracle proper. It reports through c.Violation.
// clockDependent: the reference evaluator met strtotime of a form that is
// relative to the current time ("", "now", "tomorrow" ...): two executions
// of such a program may legitimately differ by the seconds between them.
func clockDependent(o *ProgObs) bool {
	if o.Case.E == nil { // no reference run: be conservative
		return strings.Contains(o.Case.Src, "strtotime")
	}
	return o.RefOut.Silent != nil && strings.Contains(o.RefOut.Silent.Why, "strtotime")
}

func compareBackends(c *run.Ctx, o *ProgObs) {
	clock := clockDependent(o)
	if clock {
		c.Count("clock_dependent_programs", 1)
	}
	var base *BackObs
	baseName := ""
	for i, b := range o.Back {
		if b == nil {
			continue
		}
		name := bridge.Backend(i).String()
		if b.CompErr != nil && b.CompErr.Stage == "codegen" {
			// only the VM may refuse, and only beyond its encoding capacity
			isVM := bridge.Backend(i) == bridge.VM || bridge.Backend(i) == bridge.VMCall || bridge.Backend(i) == bridge.Engine
			ok := false
			if isVM && (b.CompErr.Msg == "overflow" || (bridge.Backend(i) == bridge.Engine && strings.Contains(b.CompErr.Msg, "overflow"))) && o.Case.E != nil {
				nodes, maxArgs, maxMembers := staticSizes(o.Case.E)
				ok = maxArgs > 255 || maxMembers > 65535 || nodes > 16000
			}
			if !ok {
				c.Violation("backend-refusal", fmt.Sprintf("%s refuses a program the checker accepted: %s :: %s", name, b.CompErr.Msg, short(o.Case.Src)), o.witness())
			} else {
				c.Count("vm_capacity_refusals", 1)
			}
			continue
		}
		if b.Skipped == "bytecode failed verification" {
			continue
		}
		if b.Skipped != "" {
			c.Violation("callthread-exec-limit", "vm-callthread: over exec limit, "+b.Skipped+" :: "+short(o.Case.Src), o.witness())
			continue
		}
		if base == nil {
			base, baseName = b, name
			continue
		}
		c.Count("compared_executions", 1)
		if (b.CompErr == nil) != (base.CompErr == nil) {
			c.Violation("backend-accept", fmt.Sprintf("%s and %s disagree on acceptance :: %s", baseName, name, short(o.Case.Src)), o.witness())
			continue
		}
		if b.CompErr != nil {
			continue
		}
		if b.Res.Class != base.Res.Class {
			c.Violation("backend-outcome", fmt.Sprintf("%s ends %s but %s ends %s :: %s", baseName, base.Res.Class, name, b.Res.Class, short(o.Case.Src)), o.witness())
			continue
		}
		if b.Res.Class == bridge.OValue {
			if b.Ill != nil || base.Ill != nil {
				// ill-formed values are C01's business; here only compare readable ones
				if (b.Ill == nil) != (base.Ill == nil) {
					c.Violation("backend-value", fmt.Sprintf("%s / %s: one result is ill-formed :: %s", baseName, name, short(o.Case.Src)), o.witness())
				}
			} else if !clock && !ref.Same(base.RV, b.RV) {
				c.Violation("backend-value", fmt.Sprintf("%s=%s but %s=%s :: %s", baseName, ref.Dump(base.RV), name, ref.Dump(b.RV), short(o.Case.Src)), o.witness())
			}
		}
		if !clock && base.Res.Obs != nil && b.Res.Obs != nil && !sameTrace(base.Res.Obs.Trace, b.Res.Obs.Trace) {
			c.Violation("backend-trace", fmt.Sprintf("host-call trace differs: %s [%s] vs %s [%s] :: %s", baseName, traceStr(base.Res.Obs.Trace), name, traceStr(b.Res.Obs.Trace), short(o.Case.Src)), o.witness())
		}
	}
}

func short(s string) string {
	if len(s) > 300 {
		return s[:300] + "…"
	}
	return s
}

func wideList(n int, el func(i int) *ref.E) *ref.E {
	xs := make([]*ref.E, n)
	for i := range xs {
		xs[i] = el(i)
	}
	return ref.List(xs...)
}

func numLit(i int) *ref.E { return ref.Num(strconv.Itoa(i), float64(i)) }

// wideCases are the deterministic size-limit programs shared by C02/C03/C11.
func wideCases() []*ProgCase {
	var out []*ProgCase
	env := bridge.NewEnv()
	env.Put("n", ref.VNum(3))
	env.Put("b", ref.VBool(true))
	add := func(id string, e *ref.E, user []*ref.Fun) {
		out = append(out, &ProgCase{ID: id, Src: ref.Render(e), E: e, Env: env, User: user})
	}
	for _, n := range []int{40, 41, 42, 43, 44, 255, 256, 257, 541, 542, 543, 544, 600, 1022, 1023, 1024, 1025, 1100} {
		n := n
		add(fmt.Sprintf("wide/list/%d", n), ref.Call("len", wideList(n, numLit)), nil)
		add(fmt.Sprintf("wide/list-sum/%d", n), ref.Call("max", wideList(n, func(i int) *ref.E {
			return ref.CallF(ref.FInfix, "+", numLit(i), ref.Ident("n"))
		})), nil)
		// map with n entries
		ks, vs := make([]*ref.E, n), make([]*ref.E, n)
		for i := range ks {
			ks[i], vs[i] = numLit(i), ref.Str("v"+strconv.Itoa(i))
		}
		add(fmt.Sprintf("wide/map/%d", n), ref.Subscript(ref.Map(ks, vs), numLit(n-1)), nil)
		// right-nested arithmetic of depth n: 1+(1+(...))
		var e *ref.E = numLit(1)
		for i := 0; i < n; i++ {
			e = ref.CallF(ref.FInfix, "+", numLit(i%5), ref.Group(e))
		}
		add(fmt.Sprintf("wide/nest/%d", n), e, nil)
		// object with n fields
		if n <= 600 {
			fs, fv := make([]string, n), make([]*ref.E, n)
			for i := range fs {
				fs[i], fv[i] = "f"+strconv.Itoa(i), numLit(i)
			}
			add(fmt.Sprintf("wide/obj/%d", n), ref.Member(ref.Obj(fs, fv), "f"+strconv.Itoa(n-1)), nil)
		}
	}
	// wide literals whose members are pushed without loading a constant or a
	// variable: empty literals, zero-member objects, calls without arguments
	for _, n := range []int{21, 22, 41, 42, 43, 44, 45, 64, 100, 542, 543, 544} {
		n := n
		empties := []func(int) *ref.E{
			func(int) *ref.E { return ref.List() },
			func(int) *ref.E { return ref.Map(nil, nil) },
			func(i int) *ref.E {
				if i%2 == 0 {
					return ref.List()
				}
				return ref.List(ref.List())
			},
		}
		for ei, el := range empties {
			add(fmt.Sprintf("wide/empties/%d/%d", n, ei), ref.Call("len", wideList(n, el)), nil)
			ks, vs := make([]*ref.E, n), make([]*ref.E, n)
			for i := range ks {
				ks[i], vs[i] = numLit(i), el(i)
			}
			add(fmt.Sprintf("wide/map-of-empties/%d/%d", n, ei), ref.Call("len", ref.Map(ks, vs)), nil)
			fs, fv := make([]string, n), make([]*ref.E, n)
			for i := range fs {
				fs[i], fv[i] = "f"+strconv.Itoa(i), el(i)
			}
			add(fmt.Sprintf("wide/obj-of-empties/%d/%d", n, ei), ref.Call("len", ref.Member(ref.Obj(fs, fv), "f"+strconv.Itoa(n-1))), nil)
		}
		add(fmt.Sprintf("wide/empties-after-operands/%d", n), ref.CallF(ref.FInfix, "+", ref.Ident("n"), ref.Call("len", wideList(n, func(i int) *ref.E {
			if i%3 == 0 {
				return ref.List(ref.Ident("n"))
			}
			return ref.List()
		}))), nil)
	}
	// a wide literal built while many other operands are live beneath it
	for _, outer := range []int{41, 42, 43, 541, 542, 543, 544, 545, 1041, 1043} {
		for _, inner := range []int{255, 256, 499, 500, 501, 502, 542, 543} {
			if (outer+inner)%2 == 1 && outer < 500 {
				continue
			}
			outer, inner := outer, inner
			add(fmt.Sprintf("wide2/%d/%d", outer, inner), ref.Call("len", wideList(outer, func(i int) *ref.E {
				if i == outer-1 || i == outer/2 {
					return ref.Call("len", wideList(inner, numLit))
				}
				return numLit(i % 7)
			})), nil)
			km, vm := make([]*ref.E, inner/2+1), make([]*ref.E, inner/2+1)
			for i := range km {
				km[i], vm[i] = numLit(i), numLit(i)
			}
			add(fmt.Sprintf("wide2-map/%d/%d", outer, inner), ref.Call("max", wideList(outer, func(i int) *ref.E {
				if i == outer-1 {
					return ref.Call("len", ref.Map(km, vm))
				}
				return numLit(i % 7)
			})), nil)
		}
	}
	for _, n := range []int{1, 2, 254, 255, 256} {
		args := make([]*ref.E, n)
		for i := range args {
			args[i] = numLit(i)
		}
		add(fmt.Sprintf("wide/args/%d", n), ref.Call("many", args...), []*ref.Fun{ref.Many(n)})
	}
	// conditional whose branches span more than 255 bytes of code
	for _, n := range []int{30, 90, 300} {
		add(fmt.Sprintf("wide/cond/%d", n), ref.Call("if", ref.Ident("b"), ref.Call("len", wideList(n, numLit)), ref.Call("len", wideList(n+1, numLit))), nil)
		add(fmt.Sprintf("wide/cond-else/%d", n), ref.CallF(ref.FTernary, "if", ref.CallF(ref.FPrefix, "!", ref.Ident("b")),
			ref.Call("len", wideList(n, numLit)), ref.Call("len", wideList(n+1, numLit))), nil)
		add(fmt.Sprintf("wide/lazy-user/%d", n), ref.Call("lzIf", ref.Ident("b"), ref.Call("len", wideList(n, numLit)), ref.Call("len", wideList(n+1, numLit))), ref.UserFuns())
	}
	return out
}

// tokenMutate produces a string near src (insert / delete / duplicate /
// transpose of white-space separated tokens and of single characters).
func tokenMutate(src string, r interface{ Intn(int) int }) string {
	toks := strings.Fields(src)
	if len(toks) < 2 {
		return src + " +"
	}
	i := r.Intn(len(toks))
	switch r.Intn(5) {
	case 0:
		toks = append(toks[:i], toks[i+1:]...)
	case 1:
		toks = append(toks[:i+1], toks[i:]...)
	case 2:
		j := r.Intn(len(toks))
		toks[i], toks[j] = toks[j], toks[i]
	case 3:
		ins := []string{"+", "-", "1", "(", ")", "[", "]", "?", ":", ",", ".", "==", "&&", "n", "xs", "\"s\"", "!", "{", "}", "'2020-01-01'", "true"}
		toks = append(toks[:i+1], append([]string{ins[r.Intn(len(ins))]}, toks[i+1:]...)...)
	default:
		b := []rune(src)
		k := r.Intn(len(b))
		return string(b[:k]) + string(b[k+1:])
	}
	return strings.Join(toks, " ")
}

func runC03(c *run.Ctx) {
	user := append(ref.UserFuns(), ref.Twice())
	opt := ref.GenOpt{MaxDepth: 5, PFail: 0.06, PSugar: 0.7, PBoundary: 0.25, PGroup: 0.05, UserFuns: true}
	n := c.Pick(6000, 200000)
	for i := 0; i < n; i++ {
		if !c.Mine(i) {
			continue
		}
		id := fmt.Sprintf("mixed/%d", i)
		c.Case(id, func() {
			g, env := stdGen(c, "mixed", i, opt, user)
			t := g.Type(2)
			e := g.Expr(t, 1+g.R.Intn(opt.MaxDepth))
			pc := &ProgCase{ID: id, Src: ref.Render(e), E: e, Env: env, User: user, SameEnvObject: i%4 == 0}
			c.Input(pc.Src)
			var more []*bridge.Env
			if i%2 == 0 {
				// the same compiled code on further environments (other values and
				// layouts), bound into fresh objects or into the same object
				for k := 1; k <= 2; k++ {
					_, env2 := stdGen(c, "mixed/env", i*4+k, opt, user)
					more = append(more, env2)
				}
			}
			all := RunProgMulti(pc, more)
			o := all[0]
			if o.Accepted() && nontrivial(e) {
				c.Distinct(progKey(pc.Src))
			}
			for _, ox := range all {
				compareBackends(c, ox)
			}
			if i%997 == 0 {
				c.Sample(map[string]interface{}{"src": pc.Src, "vm": o.Back[0].describe(), "closure": o.Back[2].describe(), "trace": traceStr(o.Back[0].Res.Obs.Trace)})
			}
		})
	}
	// token-mutated sources (no reference, cross-back-end only)
	m := c.Pick(3000, 60000)
	for i := 0; i < m; i++ {
		if !c.Mine(i) {
			continue
		}
		id := fmt.Sprintf("srcmut/%d", i)
		c.Case(id, func() {
			g, env := stdGen(c, "srcmut", i, opt, user)
			e := g.Expr(g.Type(1), 1+g.R.Intn(3))
			src := tokenMutate(ref.Render(e), g.R)
			if g.R.Intn(3) == 0 {
				src = tokenMutate(src, g.R)
			}
			pc := &ProgCase{ID: id, Src: src, Env: env, User: user}
			c.Input(src)
			o := RunProg(pc)
			if o.Accepted() {
				c.Count("srcmut_accepted", 1)
				c.Distinct(progKey(src))
			}
			compareBackends(c, o)
		})
	}
	for i, pc := range wideCases() {
		if !c.Mine(i) {
			continue
		}
		pc := pc
		c.Case(pc.ID, func() {
			c.Input(short(pc.Src))
			o := RunProg(pc)
			c.Distinct(pc.ID)
			compareBackends(c, o)
			if o.BC != nil {
				c.Count("wide_instructions", o.BC.Instructions)
			}
		})
	}
	families := append(lazyCases(), wideThunkCases()...)
	families = append(families, timeLocationCases()...)
	families = append(families, layoutEqualityCases()...)
	families = append(families, collisionCases()...)
	families = append(families, confusableCases()...)
	families = append(families, deepMismatchCases()...)
	families = append(families, fullStackCallCases()...)
	families = append(families, signedZeroCases()...)
	families = append(families, nearLiteralCases()...)
	families = append(families, sharedOperandCases()...)
	for i, pc := range families {
		if !c.Mine(i) {
			continue
		}
		pc := pc
		c.Case(pc.ID, func() {
			c.Input(pc.Src)
			o := RunProg(pc)
			c.Distinct(pc.ID)
			compareBackends(c, o)
		})
	}
	// host functions that mutate their argument: three evaluations of the
	// same compiled code must all look like the first
	for i, pc := range mutatingHostCases() {
		if !c.Mine(i) {
			continue
		}
		pc := pc
		c.Case(pc.ID, func() {
			c.Input(pc.Src)
			for _, o := range RunProgMulti(pc, []*bridge.Env{pc.Env, pc.Env}) {
				compareBackends(c, o)
				oracleC04(c, o)
			}
			c.Distinct(pc.ID)
		})
	}
}
