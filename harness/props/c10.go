package props

import (
	"fmt"
	"reflect"
	"strings"

	yae "github.com/goghcrow/yae"
	"github.com/goghcrow/yae/parser/ast"
	"github.com/goghcrow/yae/parser/oper"
	"github.com/goghcrow/yae/trans"
	"github.com/goghcrow/yae/types"
	"github.com/goghcrow/yae/val"

	"verif/harness/bridge"
	"verif/harness/ref"
	"verif/harness/run"
)

// astDump is a full field-by-field snapshot of a tree (every exported and
// embedded field, including the annotations the checker attaches).
func astDump(v interface{}) string {
	var b strings.Builder
	dumpVal(&b, reflect.ValueOf(v), 0)
	return b.String()
}

func dumpVal(b *strings.Builder, v reflect.Value, depth int) {
	if depth > 4000 {
		b.WriteString("<deep>")
		return
	}
	switch v.Kind() {
	case reflect.Invalid:
		b.WriteString("nil")
	case reflect.Interface:
		if v.IsNil() {
			b.WriteString("nil")
			return
		}
		e := v.Elem()
		// type attachments (*types.Type) and other foreign values: by rendering
		if e.Kind() == reflect.Ptr && !strings.HasPrefix(e.Type().String(), "*ast.") {
			if s, ok := e.Interface().(fmt.Stringer); ok && !e.IsNil() {
				b.WriteString("«" + s.String() + "»")
				return
			}
		}
		dumpVal(b, e, depth+1)
	case reflect.Ptr:
		if v.IsNil() {
			b.WriteString("nil")
			return
		}
		b.WriteString("&")
		dumpVal(b, v.Elem(), depth+1)
	case reflect.Struct:
		b.WriteString(v.Type().Name() + "{")
		for i := 0; i < v.NumField(); i++ {
			if i > 0 {
				b.WriteString(" ")
			}
			b.WriteString(v.Type().Field(i).Name + ":")
			dumpVal(b, v.Field(i), depth+1)
		}
		b.WriteString("}")
	case reflect.Slice:
		b.WriteString("[")
		for i := 0; i < v.Len(); i++ {
			if i > 0 {
				b.WriteString(" ")
			}
			dumpVal(b, v.Index(i), depth+1)
		}
		b.WriteString("]")
	case reflect.String:
		fmt.Fprintf(b, "%q", v.String())
	case reflect.Int, reflect.Int64, reflect.Int32:
		fmt.Fprintf(b, "%d", v.Int())
	case reflect.Float64, reflect.Float32:
		fmt.Fprintf(b, "%v", v.Float())
	case reflect.Bool:
		fmt.Fprintf(b, "%v", v.Bool())
	default:
		fmt.Fprintf(b, "<%s>", v.Kind())
	}
}

// coreOnly reports the first non-core node kind in a desugared tree.
func coreOnly(e ast.Expr) string {
	bad := ""
	var walk func(x ast.Expr)
	walk = func(x ast.Expr) {
		if bad != "" || x == nil {
			return
		}
		switch n := x.(type) {
		case *ast.StrExpr, *ast.NumExpr, *ast.TimeExpr, *ast.BoolExpr, *ast.IdentExpr:
		case *ast.ListExpr:
			for _, k := range n.Elems {
				walk(k)
			}
		case *ast.MapExpr:
			for _, p := range n.Pairs {
				walk(p.Key)
				walk(p.Val)
			}
		case *ast.ObjExpr:
			for _, f := range n.Fields {
				walk(f.Val)
			}
		case *ast.CallExpr:
			walk(n.Callee)
			for _, a := range n.Args {
				walk(a)
			}
		case *ast.SubscriptExpr:
			walk(n.Var)
			walk(n.Idx)
		case *ast.MemberExpr:
			walk(n.Obj)
		default:
			bad = fmt.Sprintf("%T", x)
		}
	}
	walk(e)
	return bad
}

// explicitSexp renders a core tree; used to compare desugared trees with the
// explicit tree built from the reference expression.
func explicitSexp(e ast.Expr) string { return realSexp(e, false, nil) }

func hasGroupedMemberCallee(e ast.Expr) bool {
	found := false
	var walk func(x ast.Expr)
	strip := func(x ast.Expr) (ast.Expr, bool) {
		g := false
		for {
			gr, ok := x.(*ast.GroupExpr)
			if !ok {
				return x, g
			}
			x, g = gr.SubExpr, true
		}
	}
	walk = func(x ast.Expr) {
		switch n := x.(type) {
		case *ast.CallExpr:
			if in, grouped := strip(n.Callee); grouped {
				if _, ok := in.(*ast.MemberExpr); ok {
					found = true
				}
			}
			walk(n.Callee)
			for _, a := range n.Args {
				walk(a)
			}
		case *ast.GroupExpr:
			walk(n.SubExpr)
		case *ast.ListExpr:
			for _, k := range n.Elems {
				walk(k)
			}
		case *ast.MapExpr:
			for _, p := range n.Pairs {
				walk(p.Key)
				walk(p.Val)
			}
		case *ast.ObjExpr:
			for _, f := range n.Fields {
				walk(f.Val)
			}
		case *ast.SubscriptExpr:
			walk(n.Var)
			walk(n.Idx)
		case *ast.MemberExpr:
			walk(n.Obj)
		case *ast.UnaryExpr:
			walk(n.LHS)
		case *ast.BinaryExpr:
			walk(n.LHS)
			walk(n.RHS)
		case *ast.TenaryExpr:
			walk(n.Left)
			walk(n.Mid)
			walk(n.Right)
		}
	}
	walk(e)
	return found
}

// structural half on one parsed tree
func checkDesugar(c *run.Ctx, label string, tree ast.Expr) ast.Expr {
	c.Count("trees_desugared", 1)
	before := astDump(tree)
	var d1, d2 ast.Expr
	if err := func() (err string) {
		defer func() {
			if r := recover(); r != nil {
				err = fmt.Sprint(r)
			}
		}()
		d1 = trans.Desugar(tree)
		d2 = trans.Desugar(d1)
		return ""
	}(); err != "" {
		c.Violation("desugar-fault", fmt.Sprintf("desugaring %s panics: %s", label, err), nil)
		return nil
	}
	if k := coreOnly(d1); k != "" {
		c.Violation("desugar-leaves-sugar", fmt.Sprintf("desugared tree of %s still contains a %s node", label, k), nil)
	}
	if a, b := astDump(d1), astDump(d2); a != b {
		det := fmt.Sprintf("desugaring twice differs from desugaring once for %s: %s vs %s", label, explicitSexp(d1), explicitSexp(d2))
		if hasGroupedMemberCallee(tree) {
			det = "grouped-member-callee: " + det
		}
		c.Violation("desugar-not-idempotent", det, nil)
	}
	if after := astDump(tree); after != before {
		c.Violation("desugar-mutates-input", fmt.Sprintf("desugaring %s changed the original tree", label), map[string]string{"before": before, "after": after})
	}
	return d1
}

// nestCases: every sugar form nested in every operand position of every
// construct.
func nestCases() []*ref.E {
	n, b, xs := ref.Ident("n"), ref.Ident("b"), ref.Ident("xs")
	one := ref.Num("1", 1)
	numInner := []func() *ref.E{
		func() *ref.E { return ref.CallF(ref.FPrefix, "-", n) },
		func() *ref.E { return ref.CallF(ref.FInfix, "-", n, one) },
		func() *ref.E { return ref.CallF(ref.FInfix, "^", n, ref.CallF(ref.FInfix, "^", one, n)) },
		func() *ref.E { return ref.CallF(ref.FTernary, "if", b, n, one) },
		func() *ref.E { return ref.CallF(ref.FMethod, "abs", n) },
		func() *ref.E { return ref.CallF(ref.FMethod, "max", n, one) },
		func() *ref.E { return ref.Group(n) },
		func() *ref.E { return ref.Group(ref.CallF(ref.FInfix, "+", n, one)) },
		func() *ref.E { return ref.Subscript(xs, ref.CallF(ref.FInfix, "-", n, n)) },
		func() *ref.E {
			return ref.CallF(ref.FMethod, "abs", ref.Subscript(xs, ref.CallF(ref.FInfix, "-", n, n)))
		},
		func() *ref.E {
			return ref.CallF(ref.FMethod, "abs", ref.Subscript(xs, ref.Group(ref.CallF(ref.FTernary, "if", b, ref.Num("0", 0), one))))
		},
		func() *ref.E {
			return ref.CallF(ref.FMethod, "abs", ref.Member(ref.Obj([]string{"f"}, []*ref.E{ref.CallF(ref.FPrefix, "-", n)}), "f"))
		},
	}
	boolInner := []func() *ref.E{
		func() *ref.E { return ref.CallF(ref.FPrefix, "!", b) },
		func() *ref.E { return ref.CallF(ref.FInfix, "==", b, b) },
		func() *ref.E { return ref.CallF(ref.FInfix, "<", n, one) },
		func() *ref.E { return ref.CallF(ref.FInfix, "&&", b, ref.CallF(ref.FInfix, "||", b, b)) },
		func() *ref.E { return ref.Group(b) },
	}
	var out []*ref.E
	numCtx := []func(x *ref.E) *ref.E{
		func(x *ref.E) *ref.E { return ref.CallF(ref.FPrefix, "-", x) },
		func(x *ref.E) *ref.E { return ref.CallF(ref.FInfix, "*", x, n) },
		func(x *ref.E) *ref.E { return ref.CallF(ref.FInfix, "*", n, x) },
		func(x *ref.E) *ref.E { return ref.CallF(ref.FInfix, "^", x, n) },
		func(x *ref.E) *ref.E { return ref.CallF(ref.FInfix, "^", n, x) },
		func(x *ref.E) *ref.E { return ref.CallF(ref.FInfix, "-", x, n) },
		func(x *ref.E) *ref.E { return ref.CallF(ref.FInfix, "-", n, x) },
		func(x *ref.E) *ref.E { return ref.CallF(ref.FTernary, "if", b, x, n) },
		func(x *ref.E) *ref.E { return ref.CallF(ref.FTernary, "if", b, n, x) },
		func(x *ref.E) *ref.E { return ref.CallF(ref.FMethod, "max", x, n) },
		func(x *ref.E) *ref.E { return ref.CallF(ref.FMethod, "max", n, x) },
		func(x *ref.E) *ref.E { return ref.Call("max", x, n) },
		func(x *ref.E) *ref.E { return ref.Subscript(ref.List(x, n), ref.Num("0", 0)) },
		func(x *ref.E) *ref.E { return ref.Subscript(xs, ref.CallF(ref.FInfix, "-", x, x)) },
		func(x *ref.E) *ref.E { return ref.Subscript(ref.Map([]*ref.E{x}, []*ref.E{n}), x.Clone()) },
		func(x *ref.E) *ref.E { return ref.Subscript(ref.Map([]*ref.E{n}, []*ref.E{x}), n) },
		func(x *ref.E) *ref.E { return ref.Member(ref.Obj([]string{"f", "g"}, []*ref.E{x, n}), "f") },
		func(x *ref.E) *ref.E { return ref.Group(x) },
		func(x *ref.E) *ref.E { return ref.CallF(ref.FInfix, "==", ref.CallF(ref.FInfix, "<", x, n), b) },
		func(x *ref.E) *ref.E {
			return ref.CallF(ref.FMethod, "fst", x, ref.CallF(ref.FMethod, "tr", ref.Str("t"), n))
		},
	}
	boolCtx := []func(x *ref.E) *ref.E{
		func(x *ref.E) *ref.E { return ref.CallF(ref.FPrefix, "!", x) },
		func(x *ref.E) *ref.E { return ref.CallF(ref.FInfix, "==", x, b) },
		func(x *ref.E) *ref.E { return ref.CallF(ref.FInfix, "==", b, x) },
		func(x *ref.E) *ref.E { return ref.CallF(ref.FInfix, "!=", x, b) },
		func(x *ref.E) *ref.E { return ref.CallF(ref.FInfix, "&&", x, b) },
		func(x *ref.E) *ref.E { return ref.CallF(ref.FInfix, "||", b, x) },
		func(x *ref.E) *ref.E { return ref.CallF(ref.FTernary, "if", x, n, one) },
		func(x *ref.E) *ref.E { return ref.CallF(ref.FMethod, "lzIf", x, n, one) },
		func(x *ref.E) *ref.E { return ref.List(x, b) },
	}
	for _, cx := range numCtx {
		for _, in := range numInner {
			out = append(out, cx(in()))
			for _, in2 := range numInner[:8] {
				out = append(out, cx(numCtx[(len(out)*7)%len(numCtx)](in2())))
			}
		}
	}
	for _, cx := range boolCtx {
		for _, in := range boolInner {
			out = append(out, cx(in()))
			for _, cx2 := range boolCtx {
				out = append(out, cx(cx2(in())))
			}
		}
	}
	return out
}

// semantic half: sugared source vs explicit tree
func checkSugarPair(c *run.Ctx, id string, e *ref.E, env *bridge.Env, user []*ref.Fun) {
	src := ref.Render(e)
	c.Input(src)
	sug := RunProg(&ProgCase{ID: id, Src: src, E: e.Clone(), Env: env, User: user})
	exp := RunProg(&ProgCase{ID: id, Src: src, E: e.Clone(), Env: env, User: user, AsAST: true})
	c.Count("sugar_pairs", 1)
	for i := range sug.Back {
		a, b := sug.Back[i], exp.Back[i]
		if a == nil || b == nil {
			continue
		}
		name := bridge.Backend(i).String()
		if (a.CompErr == nil) != (b.CompErr == nil) {
			c.Violation("sugar-acceptance", fmt.Sprintf("%s: sugared form %s and its explicit calls differ in acceptance (%v / %v)", name, src, a.CompErr, b.CompErr), sug.witness())
			continue
		}
		if a.CompErr != nil {
			continue
		}
		if a.Type != nil && b.Type != nil && !ref.Eq(a.Type, b.Type) {
			c.Violation("sugar-type", fmt.Sprintf("%s: sugared %s : %s, explicit calls : %s", name, src, a.Type.Canon(), b.Type.Canon()), sug.witness())
		}
		if a.Skipped != "" || b.Skipped != "" || a.Res.Class == bridge.OLimit || b.Res.Class == bridge.OLimit {
			continue
		}
		if clockDependent(sug) {
			continue // strtotime of a form relative to the current time
		}
		if a.Res.Class != b.Res.Class || (a.Res.Class == bridge.OValue && a.Ill == nil && b.Ill == nil && !ref.Same(a.RV, b.RV)) || !sameTrace(a.Res.Obs.Trace, b.Res.Obs.Trace) {
			c.Violation("sugar-meaning", fmt.Sprintf("%s: sugared %s gives %s [%s]; the explicit calls give %s [%s]", name, src, a.describe(), traceStr(a.Res.Obs.Trace), b.describe(), traceStr(b.Res.Obs.Trace)),
				map[string]interface{}{"sugared": sug.witness(), "explicit": exp.witness()})
		}
	}
	// and both must mean what the reference says
	oracleC04(c, sug)
	oracleC02(c, sug)
}

func runC10(c *run.Ctx) {
	lateOperators(c)
	sameTreeTwoEnvironments(c)
	user := ref.UserFuns()
	bt := builtinTable()
	sess := bridge.NewSession(user)
	// structural half A: trees from the parser-level generator (all node
	// kinds in all operand positions, built-in table)
	nA := c.Pick(6000, 400000)
	for i := 0; i < nA; i++ {
		if !c.Mine(i) {
			continue
		}
		r := c.Rng("ptree", i)
		c.Case(fmt.Sprintf("ptree/%d", i), func() {
			tr := genTree(r, bt, 1+r.Intn(5))
			var lx []string
			tr.full(&lx)
			for k := r.Intn(4); k > 0; k-- {
				if l2 := dropParenPair(r, lx); l2 != nil {
					lx = l2
				}
			}
			src, _, yt := layout(lx, []string{" "}, bt)
			c.Input(src)
			tree, err := realParse(bt, yt)
			if err != "" {
				return
			}
			c.Distinct(src)
			checkDesugar(c, fmt.Sprintf("%q", src), tree)
		})
	}
	// structural half B + semantic half: generated well-typed programs
	opt := ref.GenOpt{MaxDepth: 5, PFail: 0.04, PSugar: 0.85, PBoundary: 0.1, PGroup: 0.12, UserFuns: true}
	nB := c.Pick(3000, 150000)
	for i := 0; i < nB; i++ {
		if !c.Mine(i) {
			continue
		}
		id := fmt.Sprintf("pair/%d", i)
		c.Case(id, func() {
			g, env := stdGen(c, "pair", i, opt, user)
			e := g.Expr(g.Type(2), 1+g.R.Intn(opt.MaxDepth))
			src := ref.Render(e)
			if tree, err := sess.ParseSrc(src); err == nil {
				before := astDump(tree)
				if d := checkDesugar(c, fmt.Sprintf("%q", src), tree); d != nil {
					// receiver and arguments keep their source order: the desugared
					// tree must be exactly the explicit tree
					if want, got := explicitSexp(trans.Desugar(bridge.ToAST(e))), explicitSexp(d); want != got {
						c.Violation("desugar-wrong-call", fmt.Sprintf("desugaring %q gives %s; the calls it stands for are %s", src, got, want), nil)
					}
				}
				// the original tree must survive checking and all four compilers
				for b := bridge.VM; b < bridge.NBackends; b++ {
					sess.CompileTree(tree, env.TypeEnv(), b)
				}
				if after := astDump(tree); after != before {
					c.Violation("pipeline-mutates-input", fmt.Sprintf("compiling %q changed the parsed tree", src), map[string]string{"before": before, "after": after})
				}
			}
			c.Distinct(src)
			checkSugarPair(c, id, e, env, user)
			if i%499 == 0 {
				c.Sample(map[string]string{"sugared": src, "explicit": explicitSexp(trans.Desugar(bridge.ToAST(e)))})
			}
		})
	}
	// nesting matrix
	env := bridge.NewEnv()
	env.Put("n", ref.VNum(3))
	env.Put("b", ref.VBool(true))
	env.Put("xs", ref.VList(ref.TNum, ref.VNum(5), ref.VNum(-6), ref.VNum(7)))
	for i, e := range nestCases() {
		if !c.Mine(i) {
			continue
		}
		e := e
		id := fmt.Sprintf("nest/%d", i)
		c.Case(id, func() {
			src := ref.Render(e)
			if tree, err := sess.ParseSrc(src); err == nil {
				if d := checkDesugar(c, fmt.Sprintf("%q", src), tree); d != nil {
					if want, got := explicitSexp(trans.Desugar(bridge.ToAST(e))), explicitSexp(d); want != got {
						c.Violation("desugar-wrong-call", fmt.Sprintf("desugaring %q gives %s; the calls it stands for are %s", src, got, want), nil)
					}
				}
			} else {
				c.Violation("sugar-acceptance", fmt.Sprintf("sugared form %q does not parse: %v", src, err), nil)
			}
			c.Distinct(src)
			checkSugarPair(c, id, e, env, user)
		})
	}
	// the recorded finding: a parenthesised member used as callee
	if c.Batch == 0 {
		knownGroupedCallee(c, sess)
	}
}

func knownGroupedCallee(c *run.Ctx, sess *bridge.Session) {
	c.Case("known/grouped-member-callee", func() {
		fenv := bridge.NewEnv()
		fenv.Put("o", ref.VObj(ref.TObj(ref.F("f", ref.TFun([]*ref.Ty{ref.TNum}, ref.TNum))), &ref.V{T: ref.TFun([]*ref.Ty{ref.TNum}, ref.TNum),
			Fn: &ref.Fun{Impl: func(_ *ref.Evaluator, _ *ref.Ty, x []ref.Arg) *ref.V { return ref.VNum(x[0].V.N + 1) }}}))
		for _, src := range []string{"(o.f)(1)", "((o.f))(1)", "[(o.f)(2)]"} {
			if tree, err := sess.ParseSrc(src); err == nil {
				checkDesugar(c, fmt.Sprintf("%q", src), tree)
			}
		}
	})
}

// lateOperators: an engine that has already compiled something gets a new
// operator; its sugared form must mean the call of the registered function.
func lateOperators(c *run.Ctx) {
	type lateOp struct {
		op   oper.Operator
		fn   *val.Val
		src  string
		want float64
	}
	num2 := func(name string, f func(x, y float64) float64) *val.Val {
		return val.Fun(types.Fun(name, []*types.Type{types.Num, types.Num}, types.Num), func(a ...*val.Val) *val.Val {
			return val.Num(f(a[0].Num().V, a[1].Num().V))
		})
	}
	num1 := func(name string, f func(x float64) float64) *val.Val {
		return val.Fun(types.Fun(name, []*types.Type{types.Num}, types.Num), func(a ...*val.Val) *val.Val { return val.Num(f(a[0].Num().V)) })
	}
	ops := []lateOp{
		{oper.Operator{Kind: "+-", BP: oper.BP_TERM, Fixity: oper.INFIX_L}, num2("+-", func(x, y float64) float64 { return 700 + x*10 + y }), "x +- 2", 700 + 30 + 2},
		{oper.Operator{Kind: "<=>", BP: oper.BP_CMP, Fixity: oper.INFIX_N}, num2("<=>", func(x, y float64) float64 { return x - y + 100 }), "x <=> 2", 101},
		{oper.Operator{Kind: "mod", BP: oper.BP_FACTOR, Fixity: oper.INFIX_L}, num2("mod", func(x, y float64) float64 { return 50 + x + y }), "x mod 2", 55},
		{oper.Operator{Kind: "**", BP: oper.BP_EXP, Fixity: oper.INFIX_R}, num2("**", func(x, y float64) float64 { return x*100 + y }), "x ** 2 ** 1", 3*100 + (2*100 + 1)},
		{oper.Operator{Kind: "~", BP: oper.BP_PREFIX, Fixity: oper.PREFIX}, num1("~", func(x float64) float64 { return x + 0.5 }), "~x", 3.5},
		{oper.Operator{Kind: "!!", BP: oper.BP_POSTFIX, Fixity: oper.POSTFIX}, num1("!!", func(x float64) float64 { return x * 1000 }), "x!!", 3000},
		{oper.Operator{Kind: "-->", BP: oper.BP_TERM, Fixity: oper.INFIX_L}, num2("-->", func(x, y float64) float64 { return 9000 + x + y }), "x --> 2", 9005},
		// spellings outside the ASCII operator characters, written directly against their operands
		{oper.Operator{Kind: "√", BP: oper.BP_PREFIX, Fixity: oper.PREFIX}, num1("√", func(x float64) float64 { return x + 0.125 }), "√x", 3.125},
		{oper.Operator{Kind: "√", BP: oper.BP_PREFIX, Fixity: oper.PREFIX}, num1("√", func(x float64) float64 { return x + 0.125 }), "√16", 16.125},
		{oper.Operator{Kind: "×", BP: oper.BP_FACTOR, Fixity: oper.INFIX_L}, num2("×", func(x, y float64) float64 { return x*y + 0.5 }), "x×2", 6.5},
		{oper.Operator{Kind: "×", BP: oper.BP_FACTOR, Fixity: oper.INFIX_L}, num2("×", func(x, y float64) float64 { return x*y + 0.5 }), "2×x×_y", 0.5},
		{oper.Operator{Kind: "°", BP: oper.BP_POSTFIX, Fixity: oper.POSTFIX}, num1("°", func(x float64) float64 { return x * 60 }), "x°+1", 181},
		{oper.Operator{Kind: "≤≥", BP: oper.BP_CMP, Fixity: oper.INFIX_N}, num2("≤≥", func(x, y float64) float64 { return x - y }), "x≤≥1", 2},
	}
	env := map[string]interface{}{"x": 3.0, "_y": 0.0}
	for i, lo := range ops {
		for warm := 0; warm < 3; warm++ {
			if !c.Mine(i*3 + warm) {
				continue
			}
			lo, warm := lo, warm
			c.Case(fmt.Sprintf("late-operator/%d/%d", i, warm), func() {
				ex := yae.NewExpr()
				if warm == 2 {
					ex.UseClosureCompiler()
				}
				for k := 0; k < warm; k++ { // the engine has been used before the registration
					if _, err := ex.Compile("x + 1 - 2 * x + _y", env); err != nil {
						c.Violation("sugar-acceptance", "warm-up compile failed: "+err.Error(), nil)
						return
					}
				}
				ex.RegisterOperator(lo.op).RegisterFun(lo.fn)
				c.Count("sugar_pairs", 1)
				what := fmt.Sprintf("%q after registering %s on an engine used %d time(s) before", lo.src, lo.op.Kind, warm)
				cl, err := ex.Compile(lo.src, env)
				if err != nil {
					c.Violation("sugar-acceptance", fmt.Sprintf("%s is rejected: %v", what, err), nil)
					return
				}
				v, err := cl(env)
				if err != nil || v.Num().V != lo.want {
					c.Violation("sugar-meaning", fmt.Sprintf("%s gives %v %v; the explicit call gives %v", what, v, err, lo.want), nil)
				}
				c.Distinct(what)
			})
		}
	}
}

// sameTreeTwoEnvironments: a host parses once and compiles the tree against
// several type environments (a rule engine applying one rule to records of
// different shapes): every compilation must behave like a compilation of a
// fresh parse -- explicit calls as much as their sugared spellings.
func sameTreeTwoEnvironments(c *run.Ctx) {
	srcs := []string{"len(x)", "1 + len(x)", "x.len()", "string(x) + \"!\"", "x == x", "[x, x]", "if(b, x, x)", "len([x])", "string([x, x])",
		"len(x) + len(x)", "get([x], 0, x) == x", "b ? len(x) : 0", "max(len(x), 1)", "print(len(x))"}
	variants := []*ref.V{
		ref.VList(ref.TNum, ref.VNum(1), ref.VNum(2)), ref.VStr("abc"), ref.VMap(ref.TStr, ref.TNum, ref.KV{K: ref.VStr("k"), V: ref.VNum(1)}),
		ref.VList(ref.TStr, ref.VStr("s")), ref.VStr(""), ref.VList(ref.TList(ref.TNum)),
	}
	backs := []bridge.Backend{bridge.VM, bridge.Closure, bridge.Interp}
	n := 0
	for si, src := range srcs {
		for rot := range variants {
			for _, back := range backs {
				n++
				if !c.Mine(n) {
					continue
				}
				src, rot, back := src, rot, back
				c.Case(fmt.Sprintf("same-tree/%d/%d/%s", si, rot, back), func() {
					c.Input(src)
					sess := bridge.NewSession(nil)
					tree, perr := sess.ParseSrc(src)
					if perr != nil {
						c.Violation("sugar-acceptance", fmt.Sprintf("%q does not parse: %v", src, perr), nil)
						return
					}
					for k := range variants {
						v := variants[(k+rot)%len(variants)]
						env := bridge.NewEnv()
						env.Put("x", v)
						env.Put("b", ref.VBool(true))
						run1 := func(t ast.Expr) string {
							cp, err := sess.CompileTree(t, env.TypeEnv(), back)
							if err != nil {
								return "rejected at " + err.Stage
							}
							res := cp.Exec(env.ValEnv())
							if res.Class != bridge.OValue {
								return "ends " + string(res.Class)
							}
							return "value " + safeStr(res.Val)
						}
						fresh, ferr := sess.ParseSrc(src)
						if ferr != nil {
							return
						}
						c.Count("sugar_pairs", 1)
						got, want := run1(tree), run1(fresh)
						if got != want {
							c.Violation("sugar-meaning", fmt.Sprintf("%s: %q compiled from a tree that was compiled before (compilation %d, x : %s) is %s; compiled from a fresh parse it is %s", back, src, k+1, v.T.Canon(), got, want), nil)
							return
						}
					}
					c.Distinct(fmt.Sprintf("same-tree/%d/%d/%s", si, rot, back))
				})
			}
		}
	}
}

func init() {
	run.Register(&run.Spec{
		ID: "C10", Run: runC10, Level: "exploration",
		Rule: "structural half: parsed trees from (a) the parser-level tree generator (all node kinds nested in all operand positions, redundant parentheses partly dropped) and (b) generated well-typed programs with 85% sugared forms and 12% redundant groups: Desugar leaves only core node kinds, Desugar∘Desugar == Desugar (full field snapshot), the input tree is byte-for-byte unchanged after Desugar / Check / all four compilers, the desugared tree equals the explicit call tree (receiver first, arguments in source order); " +
			"semantic half: sugared source vs the explicit tree built directly as ast nodes (no parser): equal acceptance, inferred type, outcome and host-call trace on 4 back ends, plus agreement with the reference evaluator; user operators (infix, right-assoc, prefix, postfix, identifier-like, spellings composed of built-in operators) registered on an engine that has already compiled, also spellings outside ASCII (√ × ° ≤≥) written directly against their operands; one parsed tree compiled against six type environments in turn (explicit and sugared polymorphic calls) vs. a fresh parse each time; a nesting matrix puts every sugar form (prefix, infix, right-assoc chain, ?:, method call, group, sugar inside a subscript index / member object of a method receiver) in every operand position of every construct, two deep. distinct = distinct source text",
		Assume:    []string{"explicit form = ast.Call(ast.Var(name), args) as produced by bridge.ToAST"},
		MinEvents: 3000, EventKey: "trees_desugared",
	})
}
