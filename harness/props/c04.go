package props

import (
	"fmt"
	"math"
	"time"

	"verif/harness/bridge"
	"verif/harness/ref"
	"verif/harness/run"
)

var c04Nums = []float64{0, math.Copysign(0, -1), 1, -1, 2, 3, 0.5, -0.5, 1.5, 2.5, -2.5, 1e-9, -1e-9, 5e-10, 1e-10,
	1 + 5e-10, 1 - 5e-10, 1 + 1e-9, 1 - 1e-9, 1 + 2e-9, 1 - 2e-9, 7, -7, 3.9, 10, 255, 256,
	9007199254740991, 9007199254740992, 9007199254740993, 9223372036854775807, 9223372036854775808, -9223372036854775808,
	1e19, 1e20, 1e308, -1e308, 5e-324, math.Inf(1), math.Inf(-1), math.NaN(), 0.1, 0.2, 0.30000000000000004, 100, 1000000}

var c04Strs = []string{"", "a", "abc", "ABC", "晓", "晓明a", "😀", "é", "é", "q\"uote", "back\\slash", "line\nbreak", "\x00", "\xff\xfe", "a\xffb",
	"%_", " ", "a b", "(", "[a-z]+", "^a.c$", "a|b", "2022-06-15", "2022-06-15 12:30:45", "@86400", "1", "0"}

func c04Pool(t *ref.Ty) []*ref.V {
	switch t.K {
	case ref.KNum:
		out := make([]*ref.V, len(c04Nums))
		for i, n := range c04Nums {
			out[i] = ref.VNum(n)
		}
		return out
	case ref.KStr:
		out := make([]*ref.V, len(c04Strs))
		for i, s := range c04Strs {
			out[i] = ref.VStr(s)
		}
		return out
	case ref.KBool:
		return []*ref.V{ref.VBool(true), ref.VBool(false)}
	case ref.KTime:
		var out []*ref.V
		for _, s := range []int64{0, 1, -1, 86400, 946684800, 1655296245, 2147483647, 2147483648, 4102444800} {
			out = append(out, ref.VTime(time.Unix(s, 0)))
		}
		out = append(out, ref.VTime(time.Unix(1655296245, 500000000)), ref.VTime(time.Unix(1655296245, 1)))
		// equal instants carried in other locations (host data)
		out = append(out, ref.VTime(time.Unix(1655296245, 0).UTC()), ref.VTime(time.Unix(1655296245, 0).In(time.FixedZone("X", 3600))),
			ref.VTime(time.Unix(86400, 0).In(time.FixedZone("", -5*3600))))
		return out
	case ref.KList:
		el := c04Pool(t.El)
		pick := func(ix ...int) *ref.V {
			l := &ref.V{T: t}
			for _, i := range ix {
				l.L = append(l.L, el[((i%len(el))+len(el))%len(el)])
			}
			return l
		}
		if t.El.K == ref.KTime {
			// one instant in three locations, alone and in both orders
			return []*ref.V{pick(), pick(5), pick(11), pick(12), pick(5, 11), pick(11, 5), pick(12, 13), pick(2, 3), pick(3, 2), pick(0, 1, 2)}
		}
		return []*ref.V{pick(), pick(2), pick(2, 2), pick(2, 3, 2), pick(3, 2), pick(0, 1), pick(1, 0), pick(4, 5, 6, 4, 6),
			pick(len(el)-1, len(el)-2, len(el)-3), pick(7, 8, 9, 10, 11, 12), pick(2, 4, 6, 8), pick(8, 6, 4, 2, 0)}
	case ref.KMap:
		ks, vs := c04Pool(t.Key), c04Pool(t.Val)
		mk := func(ix ...int) *ref.V {
			m := &ref.V{T: t}
			for _, i := range ix {
				m.MapPut(ks[i%len(ks)], vs[(i*7+1)%len(vs)])
			}
			return m
		}
		return []*ref.V{mk(), mk(2), mk(2, 3), mk(3, 2), mk(2, 3, 4, 5), mk(0, 1), mk(len(ks) - 1)}
	case ref.KObj:
		var out []*ref.V
		for k := 0; k < 3; k++ {
			o := &ref.V{T: t}
			for i, f := range t.Fs {
				p := c04Pool(f.T)
				o.O = append(o.O, p[(k*3+i+2)%len(p)])
			}
			out = append(out, o)
		}
		// the same content with the fields laid out in reverse
		rt := &ref.Ty{K: ref.KObj}
		for i := len(t.Fs) - 1; i >= 0; i-- {
			rt.Fs = append(rt.Fs, t.Fs[i])
		}
		o := &ref.V{T: rt}
		for i := len(t.Fs) - 1; i >= 0; i-- {
			o.O = append(o.O, out[0].O[i])
		}
		return append(out, o)
	case ref.KMaybe:
		p := c04Pool(t.El)
		return []*ref.V{ref.VNothing(t.El), ref.VJust(t.El, p[2%len(p)]), ref.VJust(t.El, p[0])}
	}
	return nil
}

// instantiations of the type variables used by the built-ins
var c04Inst = [][2]*ref.Ty{
	{ref.TNum, ref.TNum}, {ref.TStr, ref.TStr}, {ref.TStr, ref.TNum}, {ref.TNum, ref.TStr}, {ref.TBool, ref.TBool}, {ref.TTime, ref.TNum},
	{ref.TList(ref.TNum), ref.TList(ref.TStr)}, {ref.TObj(ref.F("a", ref.TNum), ref.F("b", ref.TStr)), ref.TObj(ref.F("a", ref.TNum), ref.F("b", ref.TStr))},
	{ref.TMap(ref.TStr, ref.TNum), ref.TNum},
}

func runC04(c *run.Ctx) {
	// 1. exhaustive application over pools
	ft := ref.Builtins()
	caseNo := 0
	stride := c.Pick(7, 1)
	for fi, f := range ft.Funs {
		if f.Name == "print" {
			continue
		}
		for ii, inst := range c04Inst {
			m := map[string]*ref.Ty{"a": inst[0], "b": inst[0], "k": inst[0], "v": inst[1]}
			if !inst[0].IsPrim() {
				m["k"] = ref.TStr
				m["v"] = inst[0]
			}
			ps := make([]*ref.Ty, len(f.Params))
			for i, p := range f.Params {
				ps[i] = ref.Subst(p, m)
			}
			if f.Mono() && ii > 0 {
				break
			}
			pools := make([][]*ref.V, len(ps))
			total := 1
			for i, p := range ps {
				pools[i] = c04Pool(p)
				if len(pools[i]) == 0 {
					total = 0
					break
				}
				total *= len(pools[i])
			}
			for k := 0; k < total; k++ {
				caseNo++
				if (caseNo+fi)%stride != 0 || !c.Mine(caseNo) {
					continue
				}
				k := k
				id := fmt.Sprintf("pool/%s#%d/%d/%d", f.Name, fi, ii, k)
				c.Case(id, func() {
					env := bridge.NewEnv()
					args := make([]*ref.E, len(ps))
					r := k
					for i := range ps {
						v := pools[i][r%len(pools[i])]
						r /= len(pools[i])
						name := fmt.Sprintf("p%d", i)
						env.PutTyped(name, ps[i], v)
						args[i] = ref.Ident(name)
					}
					e := ref.Call(f.Name, args...)
					if f.Name == "strtotime" {
						// only absolute forms are in scope: take them from the literal pool
						e = ref.Call(f.Name, ref.Str(ref.TimePool[k%len(ref.TimePool)]))
					}
					pc := &ProgCase{ID: id, Src: ref.Render(e), E: e, Env: env}
					c.Input(pc.Src + " with " + fmt.Sprint(pc.Env.Names))
					o := RunProg(pc)
					if o.RefErr != nil {
						c.Count("pool_rejected_by_reference", 1)
						return
					}
					c.Distinct(id)
					oracleC04(c, o)
					oracleC02(c, o)
					if caseNo%4001 == 0 {
						c.Sample(o.witness())
					}
				})
			}
		}
	}
	// 2. literal forms: every numeric spelling, string spelling and time form
	lits := []*ref.E{}
	for _, s := range ref.NumLits {
		lits = append(lits, ref.Num(s, ref.LitValue(s)))
		lits = append(lits, ref.CallF(ref.FPrefix, "-", ref.Num(s, ref.LitValue(s))))
		lits = append(lits, ref.Call("string", ref.Num(s, ref.LitValue(s))))
	}
	for _, s := range c04Strs {
		if s == "\xff\xfe" || s == "a\xffb" {
			continue // not expressible in source text
		}
		lits = append(lits, ref.Str(s), ref.Call("len", ref.Str(s)), ref.Call("string", ref.List(ref.Str(s))))
		if !containsAny(s, "`\r") {
			lits = append(lits, ref.RawStr(s))
		}
	}
	for _, s := range ref.TimePool {
		ts, _ := ref.RefStrtotime(s, time.Local)
		tl := ref.Time(s, ts)
		lits = append(lits, tl, ref.Call("strtotime", ref.Str(s)), ref.CallF(ref.FInfix, "-", tl, ref.Time("@0", 0)),
			ref.CallF(ref.FInfix, "==", tl.Clone(), ref.Call("strtotime", ref.Str(s))), ref.Call("string", tl.Clone()))
	}
	for i, e := range lits {
		// every literal case runs in two workers: one under TZ=UTC and its
		// neighbour under TZ=Asia/Shanghai
		if h := c.NBatch / 2; h > 0 && i%h != c.Batch/2 {
			continue
		}
		e := e
		id := fmt.Sprintf("lit/%d", i)
		c.Case(id, func() {
			pc := &ProgCase{ID: id, Src: ref.Render(e), E: e, Env: bridge.NewEnv()}
			c.Input(pc.Src)
			o := RunProg(pc)
			c.Distinct(pc.Src + time.Local.String())
			oracleC04(c, o)
			oracleC02(c, o)
		})
	}
	// 2b. systematic absolute date-times in every supported spelling
	nd := c.Pick(1500, 40000)
	for i := 0; i < nd; i++ {
		if h := c.NBatch / 2; h > 0 && i%h != c.Batch/2 {
			continue
		}
		i := i
		c.Case(fmt.Sprintf("date/%d", i), func() {
			r := c.Rng("dates", i)
			y := 1970 + r.Intn(131)
			if r.Intn(6) == 0 {
				y = []int{1970, 1972, 2000, 2024, 2037, 2038, 2039, 2100}[r.Intn(8)]
			}
			mo := 1 + r.Intn(12)
			d := 1 + r.Intn(time.Date(y, time.Month(mo)+1, 0, 0, 0, 0, 0, time.UTC).Day())
			if r.Intn(5) == 0 {
				d = time.Date(y, time.Month(mo)+1, 0, 0, 0, 0, 0, time.UTC).Day() // last day of the month
			}
			hh, mi, ss := r.Intn(24), r.Intn(60), r.Intn(60)
			if r.Intn(6) == 0 {
				hh, mi, ss = []int{0, 23}[r.Intn(2)], []int{0, 59}[r.Intn(2)], []int{0, 59}[r.Intn(2)]
			}
			offH, offM := r.Intn(15), []int{0, 0, 30, 45}[r.Intn(4)]
			sign := []string{"+", "-"}[r.Intn(2)]
			forms := []string{
				fmt.Sprintf("%04d-%02d-%02d", y, mo, d),
				fmt.Sprintf("%04d-%02d-%02d %02d:%02d:%02d", y, mo, d, hh, mi, ss),
				fmt.Sprintf("%04d-%02d-%02dT%02d:%02d:%02d", y, mo, d, hh, mi, ss),
				fmt.Sprintf("%04d-%02d-%02dT%02d:%02d:%02dZ", y, mo, d, hh, mi, ss),
				fmt.Sprintf("%04d-%02d-%02d %02d:%02d:%02d %s%02d%02d", y, mo, d, hh, mi, ss, sign, offH, offM),
				fmt.Sprintf("%04d-%02d-%02dT%02d:%02d:%02d%s%02d:%02d", y, mo, d, hh, mi, ss, sign, offH, offM),
				fmt.Sprintf("@%d", time.Date(y, time.Month(mo), d, hh, mi, ss, 0, time.UTC).Unix()),
			}
			txt := forms[r.Intn(len(forms))]
			ts, ok := ref.RefStrtotime(txt, time.Local)
			if !ok {
				c.Violation("harness-date", "reference does not read its own spelling "+txt, nil)
				return
			}
			tl := ref.Time(txt, ts)
			e := ref.List(tl, ref.Call("strtotime", ref.Str(txt)))
			pc := &ProgCase{ID: fmt.Sprintf("date/%d", i), Src: ref.Render(e), E: e, Env: bridge.NewEnv(), Back: []bridge.Backend{bridge.VM, bridge.Closure}}
			c.Input(pc.Src)
			o := RunProg(pc)
			c.Distinct(txt + time.Local.String())
			c.Count("date_times_checked", 1)
			oracleC04(c, o)
		})
	}
	// 3. random nested programs
	opt := ref.GenOpt{MaxDepth: 5, PFail: 0.01, PSugar: 0.6, PBoundary: 0.1, PGroup: 0.03, UserFuns: true}
	stream(c, "mixed", c.Pick(6000, 300000), opt, ref.UserFuns(), 0, oracleC04)
	fixedCases(c, lazyCases(), oracleC04)
	fixedCases(c, wideCases(), oracleC04)
	fixedCases(c, boundaryCases(), oracleC04)
	fixedCases(c, permCases(), oracleC04)
	fixedCases(c, layoutEqualityCases(), oracleC04)
	fixedCases(c, collisionCases(), oracleC04)
	fixedCases(c, timeLocationCases(), oracleC04)
	fixedCases(c, confusableCases(), oracleC04)
	fixedCases(c, signedZeroCases(), oracleC04)
	fixedCases(c, nearLiteralCases(), oracleC04)
	fixedCases(c, sharedOperandCases(), oracleC04)
	c.Note("time zone of this worker: " + time.Local.String())
}

func containsAny(s, chars string) bool {
	for _, r := range s {
		for _, q := range chars {
			if r == q {
				return true
			}
		}
	}
	return false
}
