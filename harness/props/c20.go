package props

import (
	"fmt"
	"math/rand"
	"reflect"
	"strconv"
	"strings"
	"time"
	"unicode"
	"unicode/utf8"

	"github.com/goghcrow/yae/ext"
	"github.com/goghcrow/yae/parser/ast"
	"github.com/goghcrow/yae/parser/pos"
	"github.com/goghcrow/yae/types"
	"github.com/goghcrow/yae/val"

	"verif/harness/ref"
	"verif/harness/run"
)

type critNode struct {
	op    string // and or not cond
	kids  []*critNode
	field string
	rel   string
	ops   []critOperand
}

type critOperand struct {
	kind  string // num str bool time name list
	raw   bool   // string literal written in back quotes
	num   float64
	str   string
	b     bool
	ts    int64
	name  string
	items []critOperand
}

var c20Fields = map[string]string{"n1": "num", "n2": "num", "s1": "str", "s2": "str", "b1": "bool", "t1": "time", "t2": "time",
	"pn": "num", "ps": "str", "pb": "bool", "pt": "time", "ps2": "str", "pn2": "num"}

var c20Strs = []string{"", "a", "admin", "O'Reilly", "q\"uote", "\"", "\"\"", "back\\slash", "\\", "x\\", "\\\"", "C:\\new", "a\\\" OR 1=1 -- ", "\" OR \"\"=\"",
	"%_", "100%", "line\nbreak", "tab\t", "cr\r", "\x00", "\x1a", "\b", "晓明", "é", "​", "\xff", "a\xffb\"c", "`tick`", "';--", "\\x00", "\\n", "{}", "(1, 2)", "1) OR (1=1",
	strings.Repeat("a", 31) + "\"", strings.Repeat("b", 32) + "\\", strings.Repeat("c", 63) + "\"" + strings.Repeat("c", 70), strings.Repeat("晓", 40) + "\\\"", strings.Repeat("x", 255) + "\"" + strings.Repeat("y", 10)}

var c20Nums = []float64{0, 1, -1, 42, 0.5, -0.5, 3.14159, 1e-7, 255, 9007199254740993, 9223372036854775807, 9223372036854775808, -9223372036854775808, 1e19, 1e20, 123456789.125}

func strSafeForContent(s string) bool {
	if !utf8.ValidString(s) {
		return false
	}
	for _, r := range s {
		if r == '\n' || r == '\t' || r == '\r' || r == '\b' {
			continue
		}
		if !unicode.IsPrint(r) {
			return false
		}
	}
	return true
}

func (o critOperand) expr() ast.Expr {
	switch o.kind {
	case "num":
		return ast.Num(strconv.FormatFloat(o.num, 'g', -1, 64), pos.Unknown)
	case "str":
		if o.raw && !strings.ContainsAny(o.str, "`\r") {
			return ast.Str("`"+o.str+"`", pos.Unknown) // back-quoted source literal
		}
		return ast.Str(strconv.Quote(o.str), pos.Unknown)
	case "bool":
		if o.b {
			return ast.True(pos.Unknown)
		}
		return ast.False(pos.Unknown)
	case "time":
		return &ast.TimeExpr{Pos: pos.Unknown, Text: "'@" + strconv.FormatInt(o.ts, 10) + "'", Val: o.ts}
	case "name":
		return ast.Var(o.name, pos.Unknown)
	case "list":
		xs := make([]ast.Expr, len(o.items))
		for i, it := range o.items {
			xs[i] = it.expr()
		}
		return ast.List(xs, pos.Unknown)
	}
	panic("operand kind")
}

func (n *critNode) criteria() ext.Criteria {
	switch n.op {
	case "cond":
		ops := make([]ast.Expr, len(n.ops))
		for i, o := range n.ops {
			ops[i] = o.expr()
		}
		return ext.Cond{Field: n.field, Operator: n.rel, Operands: ops}
	case "not":
		return ext.CondGroup{LogicalOper: ext.NOT, Conds: []ext.Criteria{n.kids[0].criteria()}}
	}
	lo := ext.AND
	if n.op == "or" {
		lo = ext.OR
	}
	conds := make([]ext.Criteria, len(n.kids))
	for i, k := range n.kids {
		conds[i] = k.criteria()
	}
	return ext.CondGroup{LogicalOper: lo, Conds: conds}
}

func normNum(f float64) string { return "num:" + strconv.Quote(strconv.FormatFloat(f, 'g', -1, 64)) }

// expected operand as the reader renders it, given the run-time bindings
func (o critOperand) expect(bound map[string]critOperand) string {
	switch o.kind {
	case "num":
		return normNum(o.num)
	case "bool":
		if o.b {
			return normNum(1)
		}
		return normNum(0)
	case "str":
		if !strSafeForContent(o.str) {
			return "str:*"
		}
		return "str:" + strconv.Quote(o.str)
	case "time":
		return "time:" + strconv.Quote(strconv.FormatInt(o.ts, 10))
	case "name":
		if v, ok := bound[o.name]; ok {
			return v.expect(nil)
		}
		return "col:" + strconv.Quote(o.name)
	case "list":
		xs := make([]string, len(o.items))
		for i, it := range o.items {
			xs[i] = it.expect(bound)
		}
		return "(" + strings.Join(xs, ",") + ")"
	}
	return "?"
}

func (n *critNode) flat(bound map[string]critOperand) string {
	switch n.op {
	case "cond":
		xs := []string{critOperand{kind: "name", name: n.field}.expect(bound)}
		for _, o := range n.ops {
			xs = append(xs, o.expect(bound))
		}
		rel := n.rel
		return "[" + rel + " " + strings.Join(xs, " ") + "]"
	case "not":
		return "not(" + n.kids[0].flat(bound) + ")"
	}
	var parts []string
	var collect func(k *critNode)
	collect = func(k *critNode) {
		if k.op == n.op {
			collect(k.kids[0])
			collect(k.kids[1])
			return
		}
		parts = append(parts, k.flat(bound))
	}
	collect(n)
	return n.op + "(" + strings.Join(parts, ", ") + ")"
}

// readerFlat normalises what the reference reader produced so that it is
// comparable with flat(): numbers by value, unsafe string contents masked.
func readerOperand(o ref.SQLOperand, mask bool) string {
	switch o.Kind {
	case "num":
		f, err := strconv.ParseFloat(o.Text, 64)
		if err != nil {
			return "num:!" + o.Text
		}
		return normNum(f)
	case "list":
		xs := make([]string, len(o.List))
		for i, x := range o.List {
			xs[i] = readerOperand(x, mask)
		}
		return "(" + strings.Join(xs, ",") + ")"
	case "str":
		if mask && !strSafeForContent(o.Text) {
			return "str:*"
		}
		return "str:" + strconv.Quote(o.Text)
	}
	return o.Kind + ":" + strconv.Quote(o.Text)
}

func readerFlat(n *ref.SQLNode, expectMasked map[int]bool, k *int) string {
	switch n.Op {
	case "cond":
		xs := make([]string, len(n.Ops))
		for i, o := range n.Ops {
			xs[i] = readerOperand(o, false)
		}
		return "[" + n.Rel + " " + strings.Join(xs, " ") + "]"
	case "not":
		return "not(" + readerFlat(n.Kids[0], expectMasked, k) + ")"
	}
	var parts []string
	var collect func(x *ref.SQLNode)
	collect = func(x *ref.SQLNode) {
		if x.Op == n.Op {
			for _, c := range x.Kids {
				collect(c)
			}
			return
		}
		parts = append(parts, readerFlat(x, expectMasked, k))
	}
	collect(n)
	return n.Op + "(" + strings.Join(parts, ", ") + ")"
}

// maskUnsafe replaces, in both strings, string operands whose expected
// content is masked ("str:*").
func matchFlat(want, got string) bool {
	// walk both; wherever want has str:* accept any str:"..." in got
	i, j := 0, 0
	for i < len(want) && j < len(got) {
		if strings.HasPrefix(want[i:], "str:*") {
			if !strings.HasPrefix(got[j:], "str:\"") {
				return false
			}
			// skip the quoted Go string in got
			k := j + 5
			for k < len(got) {
				if got[k] == '\\' {
					k += 2
					continue
				}
				if got[k] == '"' {
					break
				}
				k++
			}
			i += 5
			j = k + 1
			continue
		}
		if want[i] != got[j] {
			return false
		}
		i++
		j++
	}
	return i == len(want) && j == len(got)
}

func genOperand(r *rand.Rand, ty string) critOperand {
	if r.Intn(3) == 0 { // a name: another column or a bound parameter
		var names []string
		for n, t := range c20Fields {
			if t == ty {
				names = append(names, n)
			}
		}
		sortStrings(names)
		return critOperand{kind: "name", name: names[r.Intn(len(names))]}
	}
	switch ty {
	case "num":
		return critOperand{kind: "num", num: c20Nums[r.Intn(len(c20Nums))]}
	case "str":
		return critOperand{kind: "str", str: c20Strs[r.Intn(len(c20Strs))], raw: r.Intn(3) == 0}
	case "bool":
		return critOperand{kind: "bool", b: r.Intn(2) == 0}
	default:
		return critOperand{kind: "time", ts: []int64{0, 1, 86400, 1655296245, 4102444800, -1}[r.Intn(6)]}
	}
}

func sortStrings(xs []string) {
	for i := 1; i < len(xs); i++ {
		for j := i; j > 0 && xs[j] < xs[j-1]; j-- {
			xs[j], xs[j-1] = xs[j-1], xs[j]
		}
	}
}

func genLeaf(r *rand.Rand) *critNode {
	var names []string
	for n := range c20Fields {
		names = append(names, n)
	}
	sortStrings(names)
	f := names[r.Intn(len(names))]
	ty := c20Fields[f]
	var rels []string
	switch ty {
	case "num", "time":
		rels = []string{"=", "<>", "<", "<=", ">", ">=", "IN", "BETWEEN", "ISNULL"}
	case "str":
		rels = []string{"=", "<>", "IN", "LIKE", "ISNULL"}
	default:
		rels = []string{"=", "<>", "IN", "ISNULL"}
	}
	rel := rels[r.Intn(len(rels))]
	n := &critNode{op: "cond", field: f, rel: rel}
	switch rel {
	case "IN":
		k := r.Intn(4)
		if r.Intn(10) == 0 {
			k = []int{15, 16, 17, 31, 32, 33, 63, 64, 65, 129}[r.Intn(10)]
		}
		lst := critOperand{kind: "list"}
		for i := 0; i <= k; i++ {
			lst.items = append(lst.items, genOperand(r, ty))
		}
		n.ops = []critOperand{lst}
	case "BETWEEN":
		n.ops = []critOperand{genOperand(r, ty), genOperand(r, ty)}
	case "ISNULL":
	default:
		n.ops = []critOperand{genOperand(r, ty)}
	}
	return n
}

// shape k of depth <= d, enumerated: 0 leaf, then NOT(x), AND(x,y), OR(x,y)
func countShapes(d int) int {
	if d == 0 {
		return 1
	}
	c := countShapes(d - 1)
	return 1 + c + 2*c*c
}

func shape(r *rand.Rand, d int, k int) *critNode {
	if d == 0 || k == 0 {
		return genLeaf(r)
	}
	k--
	c := countShapes(d - 1)
	if k < c {
		return &critNode{op: "not", kids: []*critNode{shape(r, d-1, k)}}
	}
	k -= c
	op := "and"
	if k >= c*c {
		op = "or"
		k -= c * c
	}
	return &critNode{op: op, kids: []*critNode{shape(r, d-1, k/c), shape(r, d-1, k%c)}}
}

func typeOfName(t string) *types.Type {
	switch t {
	case "num":
		return types.Num
	case "str":
		return types.Str
	case "bool":
		return types.Bool
	}
	return types.Time
}

func checkCriteria(c *run.Ctx, r *rand.Rand, tree *critNode, force ...map[string]critOperand) {
	c.Count("criteria_compiled", 1)
	tenv := types.NewEnv()
	for n, t := range c20Fields {
		tenv.Put(n, typeOfName(t))
	}
	// run-time bindings: parameters (p*) mostly bound, columns mostly not
	bound := map[string]critOperand{}
	venv := val.NewEnv()
	var names []string
	for n := range c20Fields {
		names = append(names, n)
	}
	sortStrings(names)
	for _, n := range names {
		isParam := strings.HasPrefix(n, "p")
		if (isParam && r.Intn(5) != 0) || (!isParam && r.Intn(8) == 0) {
			o := genOperand(r, c20Fields[n])
			for o.kind == "name" {
				o = genOperand(r, c20Fields[n])
			}
			bound[n] = o
			switch o.kind {
			case "num":
				venv.Put(n, val.Num(o.num))
			case "str":
				venv.Put(n, val.Str(o.str))
			case "bool":
				venv.Put(n, val.Bool(o.b))
			case "time":
				venv.Put(n, val.Time(time.Unix(o.ts, 0)))
			}
		}
	}
	for _, fm := range force { // bindings the case insists on
		for n, o := range fm {
			bound[n] = o
			switch o.kind {
			case "num":
				venv.Put(n, val.Num(o.num))
			case "str":
				venv.Put(n, val.Str(o.str))
			case "bool":
				venv.Put(n, val.Bool(o.b))
			case "time":
				venv.Put(n, val.Time(time.Unix(o.ts, 0)))
			}
		}
	}
	var f func(v interface{}) (string, error)
	if perr := func() (p string) {
		defer func() {
			if r := recover(); r != nil {
				p = fmt.Sprint(r)
			}
		}()
		f = ext.CompileToSql(tree.criteria(), tenv)
		return ""
	}(); perr != "" {
		c.Violation("sql-fault", fmt.Sprintf("compiling the criteria %s panics: %s", tree.flat(nil), perr), nil)
		return
	}
	// the same compiled criteria rendered several times: first with nothing
	// bound, then with the drawn bindings, then with other values
	type round struct {
		bound map[string]critOperand
		venv  *val.Env
	}
	rounds := []round{{map[string]critOperand{}, val.NewEnv()}, {bound, venv}}
	if r.Intn(2) == 0 {
		rounds = rounds[1:]
	}
	b2, v2 := map[string]critOperand{}, val.NewEnv()
	for _, n := range names {
		if _, ok := bound[n]; ok || r.Intn(6) == 0 {
			o := genOperand(r, c20Fields[n])
			for o.kind == "name" {
				o = genOperand(r, c20Fields[n])
			}
			b2[n] = o
			switch o.kind {
			case "num":
				v2.Put(n, val.Num(o.num))
			case "str":
				v2.Put(n, val.Str(o.str))
			case "bool":
				v2.Put(n, val.Bool(o.b))
			case "time":
				v2.Put(n, val.Time(time.Unix(o.ts, 0)))
			}
		}
	}
	rounds = append(rounds, round{b2, v2})
	for ri, rd := range rounds {
		c20Render(c, tree, f, rd.bound, rd.venv, ri)
	}
}

func c20Render(c *run.Ctx, tree *critNode, f func(v interface{}) (string, error), bound map[string]critOperand, venv *val.Env, ri int) {
	want := tree.flat(bound)
	var sql string
	var err error
	if perr := func() (p string) {
		defer func() {
			if r := recover(); r != nil {
				p = fmt.Sprint(r)
			}
		}()
		sql, err = f(venv)
		return ""
	}(); perr != "" {
		c.Violation("sql-fault", fmt.Sprintf("rendering the criteria %s (call %d) panics: %s", tree.flat(nil), ri, perr), nil)
		return
	}
	if err != nil {
		c.Violation("sql-fault", fmt.Sprintf("rendering the criteria %s (call %d) fails: %v", tree.flat(nil), ri, err), nil)
		return
	}
	c.Count("sql_texts_read_back", 1)
	back, perr := ref.SQLParse(sql)
	if perr != nil {
		c.Violation("sql-unreadable", fmt.Sprintf("the WHERE text %q (criteria %s) does not read back: %v", sql, want, perr), nil)
		return
	}
	k := 0
	got := readerFlat(back, nil, &k)
	if !matchFlat(want, got) {
		c.Violation("sql-structure", fmt.Sprintf("the WHERE text %q (call %d of one compiled criteria) reads as %s; the criteria with these bindings are %s", sql, ri, got, want), nil)
	}
	c.Distinct(want)
}

func runC20(c *run.Ctx) {
	// every tree shape to depth 3 with random leaves
	total := countShapes(3)
	reps := c.Pick(2, 40)
	for k := 0; k < total; k++ {
		if !c.Mine(k) {
			continue
		}
		for rep := 0; rep < reps; rep++ {
			r := c.Rng("shape3", k*100+rep)
			c.Case(fmt.Sprintf("shape3/%d/%d", k, rep), func() {
				t := shape(r, 3, k)
				c.Input(t.flat(nil))
				checkCriteria(c, r, t)
			})
		}
	}
	c.Count("shapes_depth3", total)
	// sampled depth 4 / 5
	for i := 0; i < c.Pick(4000, 1000000); i++ {
		if !c.Mine(i) {
			continue
		}
		r := c.Rng("deep", i)
		c.Case(fmt.Sprintf("deep/%d", i), func() {
			d := 4 + r.Intn(2)
			t := shape(r, d, r.Intn(1<<30)%countShapes(min2(d, 4)))
			c.Input(t.flat(nil))
			checkCriteria(c, r, t)
			if i%997 == 0 {
				c.Sample(map[string]string{"criteria": t.flat(nil)})
			}
		})
	}
	// the same group twice in one tree, in positions with different
	// parenthesisation needs
	repeatedGroups(c)
	pointerHosts(c)
	// every operand string and number in every position of a small tree
	n := 0
	for _, s := range c20Strs {
		for _, rel := range []string{"=", "<>", "LIKE", "IN"} {
			n++
			if !c.Mine(n) {
				continue
			}
			s, rel := s, rel
			c.Case(fmt.Sprintf("str/%q/%s", s, rel), func() {
				r := c.Rng("strs", n)
				leaf := &critNode{op: "cond", field: "s1", rel: rel, ops: []critOperand{{kind: "str", str: s}}}
				if rel == "IN" {
					leaf.ops = []critOperand{{kind: "list", items: []critOperand{{kind: "str", str: s}, {kind: "str", str: "z"}, {kind: "str", str: s}}}}
				}
				other := &critNode{op: "cond", field: "s2", rel: "=", ops: []critOperand{{kind: "name", name: "ps"}}}
				for _, t := range []*critNode{leaf, {op: "and", kids: []*critNode{leaf, other}}, {op: "not", kids: []*critNode{{op: "or", kids: []*critNode{other, leaf}}}}} {
					checkCriteria(c, r, t)
				}
				// the column name itself bound to the string at run time
				isnull := &critNode{op: "cond", field: "s1", rel: "ISNULL"}
				force := map[string]critOperand{"s1": {kind: "str", str: s}, "ps": {kind: "str", str: s}}
				for _, t := range []*critNode{isnull, leaf, {op: "or", kids: []*critNode{{op: "not", kids: []*critNode{isnull}}, other}}, {op: "and", kids: []*critNode{other, {op: "and", kids: []*critNode{isnull, leaf}}}}} {
					checkCriteria(c, r, t, force)
				}
			})
		}
	}
	for _, f := range c20Nums {
		n++
		if !c.Mine(n) {
			continue
		}
		f := f
		c.Case(fmt.Sprintf("num/%v", f), func() {
			r := c.Rng("nums", n)
			for _, rel := range []string{"=", "<", ">="} {
				checkCriteria(c, r, &critNode{op: "cond", field: "n1", rel: rel, ops: []critOperand{{kind: "num", num: f}}})
			}
			checkCriteria(c, r, &critNode{op: "cond", field: "n1", rel: "BETWEEN", ops: []critOperand{{kind: "num", num: f}, {kind: "name", name: "pn"}}})
		})
	}
}

// subtrees lists every node of the tree in depth-first order.
func subtrees(t *critNode, out *[]*critNode) {
	*out = append(*out, t)
	for _, k := range t.kids {
		subtrees(k, out)
	}
}

func cloneCrit(t *critNode) *critNode {
	n := *t
	n.kids = nil
	for _, k := range t.kids {
		n.kids = append(n.kids, cloneCrit(k))
	}
	return &n
}

// graft copies one subtree of t over another position of t, so that one
// tree holds structurally identical groups in different contexts.
func graft(r *rand.Rand, t *critNode) {
	var all []*critNode
	subtrees(t, &all)
	var inner []*critNode
	for _, n := range all {
		if len(n.kids) > 0 {
			inner = append(inner, n)
		}
	}
	if len(inner) < 2 {
		return
	}
	src := inner[1+r.Intn(len(inner)-1)]
	dst := inner[r.Intn(len(inner))]
	var below []*critNode
	subtrees(src, &below)
	for _, n := range below { // no cycles: the target must not lie inside the source
		if n == dst {
			return
		}
	}
	dst.kids[r.Intn(len(dst.kids))] = cloneCrit(src)
}

// pointerHosts: the compiled criteria rendered several times with the same
// pointer to a host struct whose fields are rewritten in between: every
// rendering shows the values of that moment.
func pointerHosts(c *run.Ctx) {
	var names []string
	for n := range c20Fields {
		names = append(names, n)
	}
	sortStrings(names)
	goT := map[string]reflect.Type{"num": reflect.TypeOf(float64(0)), "str": reflect.TypeOf(""), "bool": reflect.TypeOf(true), "time": reflect.TypeOf(time.Time{})}
	var sf []reflect.StructField
	for i, n := range names {
		sf = append(sf, reflect.StructField{Name: fmt.Sprintf("F%d", i), Type: goT[c20Fields[n]], Tag: reflect.StructTag(fmt.Sprintf(`yae:"%s"`, n))})
	}
	st := reflect.StructOf(sf)
	for i := 0; i < c.Pick(300, 30000); i++ {
		if !c.Mine(i) {
			continue
		}
		c.Case(fmt.Sprintf("pointer-host/%d", i), func() {
			r := c.Rng("ptrhost", i)
			tree := shape(r, 2+r.Intn(2), r.Intn(1<<30)%countShapes(3))
			c.Input(tree.flat(nil))
			c.Count("criteria_compiled", 1)
			tenv := types.NewEnv()
			for n, t := range c20Fields {
				tenv.Put(n, typeOfName(t))
			}
			var f func(v interface{}) (string, error)
			if perr := func() (p string) {
				defer func() {
					if r := recover(); r != nil {
						p = fmt.Sprint(r)
					}
				}()
				f = ext.CompileToSql(tree.criteria(), tenv)
				return ""
			}(); perr != "" {
				c.Violation("sql-fault", fmt.Sprintf("compiling the criteria %s panics: %s", tree.flat(nil), perr), nil)
				return
			}
			host := reflect.New(st) // one pointer for all renderings
			for round := 0; round < 4; round++ {
				bound := map[string]critOperand{}
				for fi, n := range names {
					o := genOperand(r, c20Fields[n])
					for o.kind == "name" {
						o = genOperand(r, c20Fields[n])
					}
					bound[n] = o
					fv := host.Elem().Field(fi)
					switch o.kind {
					case "num":
						fv.SetFloat(o.num)
					case "str":
						fv.SetString(o.str)
					case "bool":
						fv.SetBool(o.b)
					case "time":
						fv.Set(reflect.ValueOf(time.Unix(o.ts, 0)))
					}
				}
				var arg interface{} = host.Interface()
				if round == 3 {
					arg = host.Elem().Interface() // and once by value
				}
				c20RenderHost(c, tree, f, bound, arg, round)
			}
		})
	}
}

func c20RenderHost(c *run.Ctx, tree *critNode, f func(v interface{}) (string, error), bound map[string]critOperand, host interface{}, ri int) {
	want := tree.flat(bound)
	var sql string
	var err error
	if perr := func() (p string) {
		defer func() {
			if r := recover(); r != nil {
				p = fmt.Sprint(r)
			}
		}()
		sql, err = f(host)
		return ""
	}(); perr != "" || err != nil {
		c.Violation("sql-fault", fmt.Sprintf("rendering the criteria %s over a host struct (call %d) fails: %s %v", tree.flat(nil), ri, perr, err), nil)
		return
	}
	c.Count("sql_texts_read_back", 1)
	back, perr := ref.SQLParse(sql)
	if perr != nil {
		c.Violation("sql-unreadable", fmt.Sprintf("the WHERE text %q (criteria %s) does not read back: %v", sql, want, perr), nil)
		return
	}
	k := 0
	got := readerFlat(back, nil, &k)
	if !matchFlat(want, got) {
		c.Violation("sql-structure", fmt.Sprintf("the WHERE text %q (call %d with the same pointer to a host struct rewritten in between) reads as %s; with the values of this call the criteria are %s", sql, ri, got, want), nil)
	}
	c.Distinct(want)
}

func repeatedGroups(c *run.Ctx) {
	leaf := func(f string, v float64) *critNode {
		return &critNode{op: "cond", field: f, rel: "=", ops: []critOperand{{kind: "num", num: v}}}
	}
	groups := func() []*critNode {
		a, b := leaf("n1", 1), &critNode{op: "cond", field: "s1", rel: "=", ops: []critOperand{{kind: "str", str: "x"}}}
		return []*critNode{
			{op: "or", kids: []*critNode{a, b}},
			{op: "and", kids: []*critNode{a, b}},
			{op: "not", kids: []*critNode{a}},
			{op: "or", kids: []*critNode{{op: "and", kids: []*critNode{a, b}}, b}},
			{op: "and", kids: []*critNode{{op: "or", kids: []*critNode{a, b}}, {op: "not", kids: []*critNode{b}}}},
			a,
		}
	}
	other := leaf("n2", 7)
	ctxs := []func(g *critNode) *critNode{
		func(g *critNode) *critNode { return g },
		func(g *critNode) *critNode { return &critNode{op: "and", kids: []*critNode{g, other}} },
		func(g *critNode) *critNode { return &critNode{op: "and", kids: []*critNode{other, g}} },
		func(g *critNode) *critNode { return &critNode{op: "or", kids: []*critNode{g, other}} },
		func(g *critNode) *critNode { return &critNode{op: "not", kids: []*critNode{g}} },
		func(g *critNode) *critNode {
			return &critNode{op: "not", kids: []*critNode{{op: "and", kids: []*critNode{other, g}}}}
		},
	}
	n := 0
	for gi := range groups() {
		for i := range ctxs {
			for j := range ctxs {
				for _, top := range []string{"or", "and"} {
					for _, share := range []bool{false, true} {
						n++
						if !c.Mine(n) {
							continue
						}
						gi, i, j, top, share := gi, i, j, top, share
						c.Case(fmt.Sprintf("repeat/%d/%d/%d/%s/%v", gi, i, j, top, share), func() {
							g1 := groups()[gi]
							g2 := g1 // the very same node object twice, or an equal copy
							if !share {
								g2 = cloneCrit(g1)
							}
							t := &critNode{op: top, kids: []*critNode{ctxs[i](g1), ctxs[j](g2)}}
							c.Input(t.flat(nil))
							checkCriteria(c, c.Rng("repeat", n), t)
						})
					}
				}
			}
		}
	}
	c.Count("repeated_group_trees", n)
}

func min2(a, b int) int {
	if a < b {
		return a
	}
	return b
}

func init() {
	run.Register(&run.Spec{
		ID: "C20", Run: runC20, Level: "exploration",
		Rule: "every AND / OR / NOT tree shape to depth 3 (2 776 shapes, exhaustive: true for shapes; leaves random over =,<>,<,<=,>,>=,IN,BETWEEN,LIKE,IS NULL on num/str/bool/time columns), sampled depth 4-5, and every adversarial operand string (quotes, doubled quotes, backslashes, trailing backslash, injection attempts, %, _, NUL, ^Z, control, invalid UTF-8, CJK, zero-width) and boundary number (fractions, > 2^53, > 2^63, 1e19, 1e20) in every literal / bound-parameter position; the same group (OR, AND, NOT, nested) twice in one tree under every pair of 6 contexts (bare, left/right of AND, of OR, under NOT, under NOT-AND; shared node object or equal copy) and random grafts of one subtree over another; every adversarial string also as the run-time value of the column of IS NULL / = / LIKE / IN; one pointer to a host struct passed to the compiled criteria four times with all fields rewritten in between; names bound or unbound in the run-time environment at random, each compiled criteria rendered 2-3 times with different bindings (unbound, bound, other values); string literals also in back-quoted source form; " +
			"monitor = independent reader of the emitted dialect (backtick identifiers, double-quoted strings with backslash escapes, from_unixtime(n)); standard precedence comparison > NOT > AND > OR; AND/OR chains flattened; structure and operands compared with the criteria tree: each string operand must read back as exactly one literal (content compared whenever it is printable), numbers by value, booleans as 1/0, times by unix seconds, unbound names as columns, bound names as their values. distinct = distinct flattened criteria",
		Assume:    []string{"non-finite numbers have no SQL form and are not generated", "string contents containing non-printable characters are checked for containment only (Go-style escapes such as \\x00 do not round-trip in MySQL but cannot leave the literal)"},
		MinEvents: 3000, EventKey: "criteria_compiled",
	})
}
