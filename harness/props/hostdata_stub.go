package props

import "verif/harness/run"

// replaced by the real host-data stream in hostdata.go
var hostDataC01 = func(c *run.Ctx) {}
