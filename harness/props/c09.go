package props

import (
	"fmt"
	"strings"
	"unicode"

	"github.com/goghcrow/yae/parser/lexer"
	"github.com/goghcrow/yae/parser/oper"
	"github.com/goghcrow/yae/parser/token"

	"verif/harness/ref"
	"verif/harness/run"
)

type lexSet struct {
	name string
	ops  []oper.Operator
	strs []string
}

func mkOps(names ...string) []oper.Operator {
	var out []oper.Operator
	for i, n := range names {
		out = append(out, oper.Operator{Kind: token.Kind(n), BP: oper.BP(3 + i%9), Fixity: oper.INFIX_L})
	}
	return out
}

func lexSets() []lexSet {
	mk := func(name string, extra ...string) lexSet {
		ops := append([]oper.Operator(nil), oper.BuiltIn()...)
		ops = append(ops, mkOps(extra...)...)
		var strs []string
		for _, o := range ops {
			strs = append(strs, string(o.Kind))
		}
		return lexSet{name, ops, strs}
	}
	bare := func(name string, names ...string) lexSet {
		return lexSet{name, mkOps(names...), names}
	}
	return []lexSet{
		mk("builtin"),
		mk("overlap", "<=>", "=", "===", "=>", "->", "?:", "::", ":=", "..", ".^.", "?.", "|>", "~", "@", "<-", "--"),
		mk("words", "in", "contains", "xor", "nand", "是", "and_then", "e", "x", "true_ish"),
		bare("bare", "<", "<=", "<=>", "=", "==", "===", "=>", ":", "::", ".", "..", "?", "??", "-", "->", "e", "x", "a"),
		// operator sets whose spellings concatenate to the same text
		bare("split1", "<", "<=>"), bare("split2", "<<", "=>"), bare("split3", "<<=", ">"), bare("split4", "<", "<", "=>"),
		mk("star1", "**", ">"), mk("star2", "*", "*>"), mk("star3", "**>"),
		mk("caret", ".ˆ", "?ˆ", "ˆ", ".ˆ."),
		// operator sets whose spellings coincide when joined with a separator
		// that is itself an operator character: {"<|", "|>"} and {"<", "|", ">"}
		bare("sepA|", "<|", "|>"), bare("sepB|", "<", "|", ">"), mk("sepC|", "<|", "|>"), mk("sepD|", "|"),
		bare("sepA&", "<&", "&>"), bare("sepB&", "<", "&", ">"), bare("sepA:", "<:", ":>"), bare("sepB:", "<", ":", ">"),
		bare("sepA~", "<~", "~>"), bare("sepB~", "<", "~", ">"), bare("sepA@", "=@", "@="), bare("sepB@", "=", "@", "="),
		bare("sepA#", "<#", "#>", "#"), bare("sepB#", "<", "#", "#", "#", ">"), bare("sepA$", "a$", "$b"), bare("sepB$", "a", "$", "b"),
	}
}

// the real lexer, wrapped: panic == syntax error
func realLex(lx interface {
	Lex(string) []*token.Token
}, src string) (toks []*token.Token, err string) {
	defer func() {
		if r := recover(); r != nil {
			toks, err = nil, fmt.Sprint(r)
		}
	}()
	return lx.Lex(src), ""
}

var relexing = false

func checkLex(c *run.Ctx, set lexSet, rl *ref.RefLexer, lx interface {
	Lex(string) []*token.Token
}, src string) {
	c.Count("inputs_lexed", 1)
	toks, err := realLex(lx, src)
	want, werr := rl.Lex(src)
	q := fmt.Sprintf("%q [ops=%s]", src, set.name)
	if err != "" {
		if !strings.Contains(err, "syntax error") {
			c.Violation("lexer-fault", fmt.Sprintf("lexing %s failed with a non-syntax error: %s", q, err), nil)
			return
		}
		if werr == nil {
			c.Violation("lexer-rejects", fmt.Sprintf("lexing %s is rejected (%s); the reference yields %d tokens %s", q, err, len(want), tokStr(want)), nil)
		}
		return
	}
	c.Count("tokens_checked", len(toks))
	// (a) partition / position invariants on the real output alone
	in := []rune(src)
	prev := 0
	line, col := 0, 0
	pos := 0
	advTo := func(i int) {
		for pos < i {
			if in[pos] == '\n' {
				line++
				col = 0
			} else {
				col++
			}
			pos++
		}
	}
	for k, t := range toks {
		if t == nil {
			c.Violation("token-invariant", fmt.Sprintf("lexing %s: token %d is nil", q, k), nil)
			return
		}
		if t.Idx < prev || t.IdxEnd <= t.Idx || t.IdxEnd > len(in) {
			c.Violation("token-invariant", fmt.Sprintf("lexing %s: token %d %q has range [%d,%d) after offset %d (order / overlap / bounds)", q, k, t.Lexeme, t.Idx, t.IdxEnd, prev), nil)
			return
		}
		for _, r := range in[prev:t.Idx] {
			if !unicode.IsSpace(r) {
				c.Violation("token-invariant", fmt.Sprintf("lexing %s: non-space %q skipped before token %d", q, r, k), nil)
				return
			}
		}
		if string(in[t.Idx:t.IdxEnd]) != t.Lexeme {
			c.Violation("token-invariant", fmt.Sprintf("lexing %s: token %d lexeme %q but its range [%d,%d) spells %q", q, k, t.Lexeme, t.Idx, t.IdxEnd, string(in[t.Idx:t.IdxEnd])), nil)
			return
		}
		advTo(t.Idx)
		if t.Line != line || t.Col != col {
			c.Violation("token-position", fmt.Sprintf("lexing %s: token %d %q recorded line %d col %d, recomputed line %d col %d", q, k, t.Lexeme, t.Line, t.Col, line, col), nil)
			return
		}
		prev = t.IdxEnd
	}
	for _, r := range in[prev:] {
		if !unicode.IsSpace(r) {
			c.Violation("token-invariant", fmt.Sprintf("lexing %s: trailing %q not covered by a token", q, r), nil)
			return
		}
	}
	// (a') reference-free law: the lexemes re-joined with single spaces lex to
	// the same kinds and lexemes
	if len(toks) > 0 && !relexing {
		xs := make([]string, len(toks))
		for i, t := range toks {
			xs[i] = t.Lexeme
		}
		joined := strings.Join(xs, " ")
		t2, err2 := realLex(lx, joined)
		same := err2 == "" && len(t2) == len(toks)
		if same {
			for i := range toks {
				if t2[i].Kind != toks[i].Kind || t2[i].Lexeme != toks[i].Lexeme {
					same = false
				}
			}
		}
		if !same {
			c.Violation("relex-law", fmt.Sprintf("lexing %s yields %s, but its lexemes joined by spaces (%q) lex to %s %s", q, realTokStr(toks), joined, realTokStr(t2), err2), nil)
			return
		}
	}
	// (b) same tokens as the reference maximal-munch lexer
	if werr != nil {
		c.Violation("lexer-accepts", fmt.Sprintf("lexing %s yields %s; the reference rejects it (%v)", q, realTokStr(toks), werr), nil)
		return
	}
	if len(want) != len(toks) {
		c.Violation("token-stream", fmt.Sprintf("lexing %s yields %s; the reference yields %s", q, realTokStr(toks), tokStr(want)), nil)
		return
	}
	for k := range want {
		if string(toks[k].Kind) != want[k].Kind || toks[k].Lexeme != want[k].Lexeme || toks[k].Idx != want[k].Idx || toks[k].IdxEnd != want[k].IdxEnd {
			c.Violation("token-stream", fmt.Sprintf("lexing %s yields %s; the reference yields %s", q, realTokStr(toks), tokStr(want)), nil)
			return
		}
	}
}

func tokStr(ts []ref.Tok) string {
	var xs []string
	for _, t := range ts {
		xs = append(xs, fmt.Sprintf("%s|%q", t.Kind, t.Lexeme))
	}
	return "[" + strings.Join(xs, " ") + "]"
}

func realTokStr(ts []*token.Token) string {
	var xs []string
	for _, t := range ts {
		xs = append(xs, fmt.Sprintf("%s|%q", string(t.Kind), t.Lexeme))
	}
	return "[" + strings.Join(xs, " ") + "]"
}

var lexAlphabet = []string{"a", "e", "x", "0", "1", ".", "<", "=", "-", "?", ":", "\"", "'", " ", "\n", "晓"}

var lexPieces = append(longNumberPieces(), lexPiecesBase...)

// long numeric literals with the fraction / exponent at every offset from 20 to 70
func longNumberPieces() []string {
	var out []string
	for n := 20; n <= 70; n += 1 {
		d := "1" + strings.Repeat("0", n-1)
		switch n % 5 {
		case 0:
			out = append(out, d+".5")
		case 1:
			out = append(out, d+"e-3")
		case 2:
			out = append(out, d+".25e+7")
		case 3:
			out = append(out, d+"E5")
		default:
			out = append(out, d[:n/2]+"."+d[n/2:])
		}
	}
	// long literals with line breaks inside and non-ASCII text on their last line
	for n := 9; n <= 40; n += 3 {
		q := []string{"`", "\"", "'"}[n%3]
		tail := []string{"晓", "é😀", "名x", "ß"}[n%4] + strings.Repeat("z", n%5)
		out = append(out, q+strings.Repeat("r", n)+"\n"+tail+q, q+"a\n"+strings.Repeat("晓", n/3)+"\n"+strings.Repeat("r", n)+tail+q, q+strings.Repeat("é", n)+"\r\n"+tail+q)
	}
	out = append(out, "\""+strings.Repeat("s", 40)+"\"", "`"+strings.Repeat("r", 35)+"`", "'"+strings.Repeat("2", 33)+"'", strings.Repeat("x", 31)+"晓"+strings.Repeat("y", 5))
	return out
}

var lexPiecesBase = []string{
	"true", "false", "and", "or", "not", "in", "xor", "a", "b1", "_x", "晓", "é", "名1", "e", "x", "E",
	"0", "1", "12", "01", "1.5", "1.5.5", "1.e5", "1e5", "1e+5", "1E-5", "1e", "1e5e6", "0x", "0x1F", "0x0F", "0xg", "0b101", "0b2", "0b", "0o17", "0o8", "1.", ".5",
	"\"s\"", "\"a\\\"b\"", "\"\\u00e9\"", "\"\\q\"", "\"open", "\"multi\nline\"", "`raw`", "`raw\nline`", "`open", "'2020-01-01'", "'t\nwo'", "'open", "'a\"b'", "'a`b'",
	"<|", "|>", "<|>", "<&>", "<:>", "<~>", "=@=", "<#>", "<##>", "a$b", "a$$b",
	".", "..", "?", "?:", "?.", ":", "::", ":=", "<", "<=", "<=>", "=", "==", "===", "=>", ">", "==>", "-", "->", "--", "!", "!=", "+", "*", "/", "%", "^", "&&", "||", "&", "|", "~", "@", "#", "$", "\\", "ˆ",
	"(", ")", "[", "]", "{", "}", ",", " ", "  ", "\n", "\t", "\r\n", " ", " ", ";", "·",
}

func runC09(c *run.Ctx) {
	sets := lexSets()
	refs := make([]*ref.RefLexer, len(sets))
	reals := make([]interface {
		Lex(string) []*token.Token
	}, len(sets))
	for i, s := range sets {
		refs[i] = ref.NewRefLexer(s.strs)
		reals[i] = lexer.NewLexer(append([]oper.Operator(nil), s.ops...))
	}
	// exhaustive strings over the mixed alphabet
	maxLen := c.Pick(4, 5)
	n := 0
	var rec func(prefix string, l int)
	rec = func(prefix string, l int) {
		if l > 0 {
			n++
			if c.Mine(n) {
				s := prefix
				c.Case("exh/"+fmt.Sprintf("%q", s), func() {
					for si := range sets {
						checkLex(c, sets[si], refs[si], reals[si], s)
					}
					c.Distinct(s)
				})
			}
		}
		if l == maxLen {
			return
		}
		for _, a := range lexAlphabet {
			rec(prefix+a, l+1)
		}
	}
	rec("", 0)
	c.Count("exhaustive_strings", n)
	// random concatenations of token pieces (adjacency of keywords, numbers,
	// multi-line literals, operator prefixes)
	m := c.Pick(60000, 6000000)
	for i := 0; i < m; i++ {
		if !c.Mine(i) {
			continue
		}
		r := c.Rng("pieces", i)
		k := 1 + r.Intn(7)
		var sb strings.Builder
		for j := 0; j < k; j++ {
			sb.WriteString(lexPieces[r.Intn(len(lexPieces))])
		}
		s := sb.String()
		c.Case(fmt.Sprintf("pieces/%d", i), func() {
			c.Input(s)
			si := r.Intn(len(sets))
			checkLex(c, sets[si], refs[si], reals[si], s)
			c.Distinct(s)
			if i%20011 == 0 {
				ts, err := realLex(reals[si], s)
				c.Sample(map[string]interface{}{"input": s, "ops": sets[si].name, "tokens": realTokStr(ts), "error": err})
			}
		})
	}
	// fresh lexer per input (construction path) on a sample
	for i := 0; i < c.Pick(2000, 100000); i++ {
		if !c.Mine(i) {
			continue
		}
		r := c.Rng("fresh", i)
		var sb strings.Builder
		for j := 0; j < 1+r.Intn(6); j++ {
			sb.WriteString(lexPieces[r.Intn(len(lexPieces))])
		}
		s := sb.String()
		c.Case(fmt.Sprintf("fresh/%d", i), func() {
			c.Input(s)
			si := r.Intn(len(sets))
			ops := append([]oper.Operator(nil), sets[si].ops...)
			r.Shuffle(len(ops), func(a, b int) { ops[a], ops[b] = ops[b], ops[a] })
			checkLex(c, sets[si], refs[si], lexer.NewLexer(ops), s)
		})
	}
}

func init() {
	run.Register(&run.Spec{
		ID: "C09", Run: runC09, Level: "exploration",
		Rule: "every string of length <= 4 (quick) / <= 5 (thorough) over the 16-symbol alphabet {a e x 0 1 . < = - ? : \" ' space newline 晓}, lexed under 4 operator sets (built-in; prefix-overlapping symbolic <,<=,<=>,=,==,===,=>,?:,::,:=,..; identifier-like incl. non-ASCII; a bare set that re-registers . ? :), exhaustive: true for that space; " +
			"plus random concatenations of 110 token pieces (keywords next to letters / digits / non-ASCII letters, every numeric form and near-miss, strings with escapes, multi-line raw / time / quoted literals followed by more tokens, operator prefixes, Unicode spaces) and shuffled registration orders; " +
			"monitors = (a) partition / position invariants recomputed from the input, (a') reference-free law: lexemes re-joined by single spaces lex to the same tokens, (b) token-by-token equality with an independent maximal-munch reference lexer. distinct = distinct input string",
		Assume:    []string{"reference lexer implements the documented token forms (DESIGN.md Appendix A, Lexing)"},
		MinEvents: 50000, EventKey: "inputs_lexed",
	})
}
