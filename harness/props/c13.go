package props

import (
	"fmt"
	"os"
	"strings"
	"syscall"
	"time"

	yae "github.com/goghcrow/yae"
	"github.com/goghcrow/yae/parser/oper"
	"github.com/goghcrow/yae/types"
	"github.com/goghcrow/yae/val"

	"verif/harness/bridge"
	"verif/harness/ref"
	"verif/harness/run"
)

// opOut is the observable outcome of one facade operation.
type opOut struct {
	Kind    string // value | compile-error | env-error | failure
	Detail  string // value dump or failure class
	Show    string // Val.String()
	Printed int
}

func (o opOut) String() string { return o.Kind + " " + o.Detail + " | " + o.Show }

func errKind(msg string) (string, string) {
	switch {
	case strings.Contains(msg, "type mismatched, expect") || strings.HasPrefix(msg, "undefined ") || strings.Contains(msg, "missing `"):
		return "env-error", ""
	}
	return "failure", string(bridge.Classify(msg))
}

// c13Content is one environment content in all its object forms.
type c13Content struct {
	name string
	env  *bridge.Env
	host map[string]interface{}
	tenv *types.Env
	venv *val.Env
}

type c13Rec struct {
	O *float64 `yae:"o"`
	W float64  `yae:"w"`
}

func c13Contents(g *ref.Gen) []*c13Content {
	mk := func(name string, variant int, mismatch bool) *c13Content {
		mismatch2 := name == "Y-mismatch"
		nested := name == "Z-nested" // same names and top-level kinds, other element types
		env := bridge.NewEnv()
		host := map[string]interface{}{}
		put := func(n string, v *ref.V, h interface{}) { env.Put(n, v); host[n] = h }
		f := float64(variant)
		put("n", ref.VNum(f+1), f+1)
		put("k", ref.VNum(10*f+0.5), 10*f+0.5)
		if mismatch {
			put("s", ref.VNum(5), 5.0) // s : num instead of str
		} else {
			s := []string{"a", "晓", "two words", ""}[variant%4]
			put("s", ref.VStr(s), s)
		}
		put("b", ref.VBool(variant%2 == 0), variant%2 == 0)
		if nested {
			xs := []string{"p", "q", "r"}
			put("xs", ref.VList(ref.TStr, ref.VStr(xs[0]), ref.VStr(xs[1]), ref.VStr(xs[2])), xs)
			m := map[string]string{"a": "1", "b": "2"}
			mv := ref.VMap(ref.TStr, ref.TStr)
			for _, k := range []string{"a", "b"} {
				mv.MapPut(ref.VStr(k), ref.VStr(m[k]))
			}
			put("m", mv, m)
		} else {
			xs := []float64{f, f + 1, f + 2, 3}
			put("xs", ref.VList(ref.TNum, ref.VNum(xs[0]), ref.VNum(xs[1]), ref.VNum(xs[2]), ref.VNum(xs[3])), xs)
			m := map[string]float64{"a": f, "b": f + 1, "c": 3, "dd": 4, "e": f * 2}
			mv := ref.VMap(ref.TStr, ref.TNum)
			for _, k := range []string{"a", "b", "c", "dd", "e"} {
				mv.MapPut(ref.VStr(k), ref.VNum(m[k]))
			}
			put("m", mv, m)
		}
		ss := []string{"x", "y", []string{"z", "晓"}[variant%2]}
		if mismatch2 {
			put("ss", ref.VStr("abc"), "abc") // ss : str instead of list[str]
		} else {
			put("ss", ref.VList(ref.TStr, ref.VStr(ss[0]), ref.VStr(ss[1]), ref.VStr(ss[2])), ss)
		}
		// an object with an absent optional field (host: nil pointer field)
		recT := ref.TObj(ref.F("o", ref.TMaybe(ref.TNum)), ref.F("w", ref.TNum))
		put("pr", ref.VObj(recT, &ref.V{T: ref.TMaybe(ref.TNum)}, ref.VNum(f)), c13Rec{nil, f})
		put("em", ref.VMap(ref.TStr, ref.TNum), map[string]float64{})
		put("el", ref.VList(ref.TNum), []float64{})
		return &c13Content{name: name, env: env, host: host, tenv: env.TypeEnv(), venv: env.ValEnv()}
	}
	return []*c13Content{mk("A", 0, false), mk("B", 1, false), mk("C", 2, false), mk("D", 3, false), mk("Z-nested", 1, false), mk("Y-mismatch", 2, false), mk("X-mismatch", 1, true)}
}

func snapshotHost(c *c13Content) string {
	var sb strings.Builder
	fmt.Fprintf(&sb, "%#v|", c.host)
	for _, n := range c.env.Names {
		v, ok := c.venv.Get(n)
		if !ok {
			sb.WriteString(n + "=<missing>;")
			continue
		}
		rv, err := bridge.FromVal(v, nil)
		if err != nil {
			sb.WriteString(n + "=<ill:" + err.Error() + ">;")
			continue
		}
		sb.WriteString(n + "=" + ref.Dump(rv) + ":" + rv.T.Decl() + ";")
		t, ok := c.tenv.Get(n)
		if ok {
			sb.WriteString(t.String() + ";")
		}
	}
	return sb.String()
}

type c13Engine struct {
	name string
	ex   *yae.Expr
	sess *bridge.Session
	late bool // registerLate has been called
}

// registerLate adds, to an engine that may already have compiled, a function
// and an operator no earlier expression could have used.
func (e *c13Engine) registerLate() {
	if e.late {
		return
	}
	e.late = true
	num2 := types.Fun("+-", []*types.Type{types.Num, types.Num}, types.Num)
	e.ex.RegisterOperator(oper.Operator{Kind: "+-", BP: oper.BP_TERM, Fixity: oper.INFIX_L})
	e.ex.RegisterFun(
		val.Fun(num2, func(a ...*val.Val) *val.Val { return val.Num(1000 + a[0].Num().V*10 + a[1].Num().V) }),
		val.Fun(types.Fun("late", []*types.Type{types.Num}, types.Num), func(a ...*val.Val) *val.Val { return val.Num(a[0].Num().V + 0.25) }),
	)
}

var c13LateSrcs = []string{"late(n) + 1", "n +- k", "late(n +- 1) +- late(k)"}

// c13Order: the second engine kind registers the same functions in reverse
// order: polymorphic overload sets (ov) then resolve differently, and nothing
// of one engine may leak into the other through shared environment objects.
func c13Order(user []*ref.Fun, closureCompiler bool) []*ref.Fun {
	if !closureCompiler {
		return user
	}
	// ... and has further polymorphic overloads of the same names and arities
	// in front, so that the same call resolves to another POSITION of the
	// overload list than on the first engine kind
	rev := append([]*ref.Fun(nil), c13Extras...)
	for i := len(user) - 1; i >= 0; i-- {
		rev = append(rev, user[i])
	}
	return rev
}

var c13Extras = func() []*ref.Fun {
	k, v, a := ref.TVar("k"), ref.TVar("v"), ref.TVar("a")
	konst := func(name string, ps []*ref.Ty, r *ref.Ty, out *ref.V) *ref.Fun {
		return &ref.Fun{Name: name, Params: ps, Ret: r, User: name + "/extra", Impl: func(*ref.Evaluator, *ref.Ty, []ref.Arg) *ref.V { return out }}
	}
	return []*ref.Fun{
		konst("ov", []*ref.Ty{ref.TMap(k, v)}, ref.TStr, ref.VStr("ov/map")),
		konst("ov", []*ref.Ty{ref.TMaybe(a)}, ref.TStr, ref.VStr("ov/maybe")),
		konst("wrap", []*ref.Ty{ref.TMap(k, v)}, ref.TList(ref.TNum), ref.VList(ref.TNum, ref.VNum(-1))),
		konst("fst", []*ref.Ty{ref.TMap(k, v), a}, ref.TStr, ref.VStr("fst/map")),
		konst("pair", []*ref.Ty{ref.TMap(k, v), ref.TMap(k, v)}, ref.TStr, ref.VStr("pair/map")),
	}
}()

func newC13Engine(name string, closureCompiler bool, user []*ref.Fun) *c13Engine {
	user = c13Order(user, closureCompiler)
	sess := bridge.NewSession(user)
	ex := yae.NewExpr()
	if closureCompiler {
		ex.UseClosureCompiler()
	}
	// the engine registers its built-ins lazily at its first compilation:
	// compile once first so that the registration order is "built-ins, then
	// the harness functions" as in the reference table
	ex.Compile("1", nil)
	ex.RegisterFun(sess.UserVals...)
	return &c13Engine{name: name, ex: ex, sess: sess}
}

// one operation against the facade; never panics
func facadeCompile(e *c13Engine, src string, env interface{}) (cl yae.Callable, out opOut) {
	defer func() {
		if r := recover(); r != nil {
			cl, out = nil, opOut{Kind: "PANIC", Detail: fmt.Sprint(r)}
		}
	}()
	c, err := e.ex.Compile(src, env)
	if err != nil {
		return nil, opOut{Kind: "compile-error"}
	}
	return c, opOut{Kind: "compiled"}
}

func facadeInvoke(e *c13Engine, cl yae.Callable, env interface{}) (out opOut) {
	defer func() {
		if r := recover(); r != nil {
			out = opOut{Kind: "PANIC", Detail: fmt.Sprint(r)}
		}
	}()
	obs := e.sess.Begin()
	v, err := cl(env)
	_ = obs
	if err != nil {
		k, d := errKind(err.Error())
		return opOut{Kind: k, Detail: d}
	}
	rv, ierr := bridge.FromVal(v, nil)
	if ierr != nil {
		return opOut{Kind: "value", Detail: "ILL-FORMED " + ierr.Error()}
	}
	return opOut{Kind: "value", Detail: ref.Dump(rv) + " :: " + ref.Stringify(rv), Show: v.String()}
}

// captureStdout runs f with file descriptor 1 redirected to a file.
func captureStdout(path string, f func()) (string, error) {
	file, err := os.OpenFile(path, os.O_CREATE|os.O_TRUNC|os.O_RDWR, 0644)
	if err != nil {
		return "", err
	}
	defer file.Close()
	saved, err := syscall.Dup(1)
	if err != nil {
		return "", err
	}
	if err := syscall.Dup2(int(file.Fd()), 1); err != nil {
		return "", err
	}
	func() {
		defer func() {
			syscall.Dup2(saved, 1)
			syscall.Close(saved)
		}()
		f()
	}()
	b, err := os.ReadFile(path)
	return string(b), err
}

func runC13(c *run.Ctx) {
	user := ref.UserFuns()
	opt := ref.GenOpt{MaxDepth: 4, PFail: 0.05, PSugar: 0.6, PBoundary: 0.1, PGroup: 0.03, UserFuns: true, AllowPrint: true, NoTime: true}
	nh := c.Pick(320, 30000)
	for h := 0; h < nh; h++ {
		if !c.Mine(h) {
			continue
		}
		id := fmt.Sprintf("history/%d", h)
		c.Case(id, func() {
			r := c.Rng("history", h)
			g := &ref.Gen{R: r, FT: funTable(user), Opt: opt, Loc: time.Local}
			contents := c13Contents(g)
			g.EnvT, g.Vars = contents[0].env.T, contents[0].env.Names
			// expression pool: generated + fixed ones that render maps and call lazy host functions
			var srcs []string
			var exprs []*ref.E
			fixed := []*ref.E{
				ref.Call("string", ref.Ident("m")),
				ref.Ident("m"),
				ref.Call("print", ref.Ident("m")),
				ref.CallF(ref.FInfix, "+", ref.Call("lzIf", ref.Ident("b"), ref.Ident("n"), ref.Ident("k")), ref.Ident("n")),
				ref.Call("union", ref.Ident("xs"), ref.List(ref.Ident("n"), ref.Num("3", 3))),
				ref.Call("string", ref.List(ref.Ident("xs"), ref.Ident("xs"))),
				ref.CallF(ref.FInfix, "+", ref.Ident("s"), ref.Call("string", ref.Call("pick3", ref.Ident("n"), ref.Ident("k"), ref.Ident("n"), ref.Call("len", ref.Ident("ss"))))),
				ref.Subscript(ref.Ident("xs"), ref.Ident("n")),
				ref.CallF(ref.FInfix, "+", ref.Call("ov", ref.Ident("xs")), ref.Call("ov", ref.Ident("n"))),
				ref.Call("ov", ref.Ident("ss")),
				ref.Call("len", ref.Ident("xs")),
				ref.Call("len", ref.Ident("ss")),
				ref.CallF(ref.FInfix, "==", ref.Ident("ss"), ref.Ident("ss")),
				ref.List(ref.Ident("em"), ref.Ident("em")),
				ref.Obj([]string{"p", "q", "r"}, []*ref.E{ref.Ident("em"), ref.List(ref.Ident("em"), ref.Ident("em")), ref.List(ref.Ident("el"), ref.Ident("el"))}),
				ref.Call("string", ref.List(ref.Ident("em"), ref.Ident("em"))),
				ref.Call("print", ref.Call("string", ref.Map([]*ref.E{ref.Ident("s"), ref.Str("k2"), ref.Str("k3")}, []*ref.E{ref.Ident("m"), ref.Ident("m"), ref.Ident("m")}))),
				ref.List(ref.Member(ref.Ident("pr"), "o"), ref.Member(ref.Ident("pr"), "o")),
				ref.Call("string", ref.List(ref.Member(ref.Ident("pr"), "o"), ref.Member(ref.Ident("pr"), "o"), ref.Member(ref.Ident("pr"), "o"))),
				ref.Obj([]string{"a", "b"}, []*ref.E{ref.Member(ref.Ident("pr"), "o"), ref.List(ref.Ident("pr"), ref.Ident("pr"))}),
				ref.CallF(ref.FInfix, "+", ref.Call("get", ref.Member(ref.Ident("pr"), "o"), ref.Ident("n")), ref.Call("len", ref.List(ref.Member(ref.Ident("pr"), "o"), ref.Member(ref.Ident("pr"), "o")))),
				ref.CallF(ref.FInfix, "+", ref.Call("ov", ref.Ident("m")), ref.Call("string", ref.Call("wrap", ref.Ident("n")))),
				ref.Call("string", ref.List(ref.Call("fst", ref.Ident("xs"), ref.Ident("n")), ref.Call("fst", ref.Ident("xs"), ref.Ident("k")))),
				ref.Call("string", ref.Call("pair", ref.Ident("s"), ref.Ident("s"))),
			}
			for _, e := range fixed {
				exprs = append(exprs, e)
			}
			for k := 0; k < 6; k++ {
				exprs = append(exprs, g.Expr(g.Type(1), 1+r.Intn(opt.MaxDepth)))
			}
			for _, e := range exprs {
				srcs = append(srcs, ref.Render(e))
			}
			nRef := len(srcs) // expressions with a reference tree
			srcs = append(srcs, c13LateSrcs...)
			// expressions over built-ins only: also through the package-level Eval / Debug
			builtinOnly := []int{0, 1, 4, 5, 7, 10, 11, 12, 13, 15, 17, 18, 19, 20}
			// one host map handed over by pointer and refilled in place between invocations
			ptrMap := map[string]interface{}{}
			ptrHost := &ptrMap
			// one *types.Env the host updates in place between compilations
			mutable := types.NewEnv()
			_ = nRef
			c.Input(strings.Join(srcs, " ;; "))
			ft := funTable(user)
			// reference prediction of what print writes, per (expression, content)
			printed := map[string][]string{}
			for ei, e := range exprs {
				for _, ct := range contents {
					ec := e.Clone()
					if _, err := ref.Check(ec, contents[0].env.T, ft); err != nil {
						continue
					}
					if _, err := ref.Check(e.Clone(), ct.env.T, ft); err != nil {
						continue // this content does not conform: nothing is evaluated
					}
					ev := &ref.Evaluator{Env: ct.env.V, FT: ft, Loc: time.Local}
					ev.Eval(ec)
					printed[fmt.Sprintf("%d/%s", ei, ct.name)] = ev.Printed
				}
			}
			before := make([]string, len(contents))
			for i, ct := range contents {
				before[i] = snapshotHost(ct)
			}
			engines := []*c13Engine{newC13Engine("vm", false, user), newC13Engine("closure", true, user)}
			// baselines: fresh engine, fresh environment objects, once per (engine kind, expression, content)
			baseline := map[string]opOut{}
			var lateNow bool // whether the baseline engine registers the late function / operator
			base := func(ek int, ei int, cc *c13Content, ct *c13Content) opOut {
				key := fmt.Sprintf("%d/%d/%s/%s/%v", ek, ei, cc.name, ct.name, lateNow)
				if o, ok := baseline[key]; ok {
					return o
				}
				fresh := newC13Engine("fresh", ek == 1, user)
				if lateNow {
					fresh.registerLate()
				}
				g2 := &ref.Gen{R: c.Rng("fresh", 0)}
				fc := c13Contents(g2)
				var f0, fx *c13Content
				for _, x := range fc {
					if x.name == cc.name {
						f0 = x
					}
					if x.name == ct.name {
						fx = x
					}
				}
				var o opOut
				cl, co := facadeCompile(fresh, srcs[ei], f0.tenv)
				if cl == nil {
					o = co
				} else {
					o = facadeInvoke(fresh, cl, fx.venv)
				}
				if lateNow && ei >= nRef && o.Kind != "compile-error" {
					// what the late function and operator compute is known outright
					nv, kv := fx.env.V["n"], fx.env.V["k"]
					if nv != nil && kv != nil && nv.T.K == ref.KNum && kv.T.K == ref.KNum {
						n, k := nv.N, kv.N
						pm := func(x, y float64) float64 { return 1000 + x*10 + y }
						abs := []float64{n + 0.25 + 1, pm(n, k), pm(pm(n, 1)+0.25, k+0.25)}
						if want := ref.Dump(ref.VNum(abs[ei-nRef])); o.Kind == "value" && !strings.HasPrefix(o.Detail, want+" ::") {
							c.Violation("reuse-compile", fmt.Sprintf("%q on an engine that compiled before the function `late` and the operator `+-` were registered gives [%s]; the registered functions compute %s", srcs[ei], o, want), nil)
						}
					}
				}
				baseline[key] = o
				return o
			}
			type compiled struct {
				ek, ei int
				cc     *c13Content
				cl     yae.Callable
				late   bool
			}
			var pool []compiled
			var expectOut []string
			var log []string
			nops := 50 + r.Intn(c.Pick(120, 350))
			stdout, cerr := captureStdout(fmt.Sprintf("%s/work/C13/stdout.%d.%d", run.Root, c.Batch, h), func() {
				for op := 0; op < nops; op++ {
					ek := r.Intn(len(engines))
					eng := engines[ek]
					lateNow = eng.late
					k := r.Intn(10)
					if x := r.Intn(40); x < 7 && len(pool) > 0 {
						k = 100 + x
					}
					switch {
					case k == 100: // a function and an operator are registered on the used engine
						eng.registerLate()
						c.Count("late_registrations", 1)
						log = append(log, fmt.Sprintf("register-late[%s]", eng.name))
					case k == 101 || k == 102: // package-level Eval / Debug on a reused host map
						ei := builtinOnly[r.Intn(len(builtinOnly))]
						ct := contents[r.Intn(len(contents))]
						var o opOut
						name := "Eval"
						func() {
							defer func() {
								if p := recover(); p != nil {
									o = opOut{Kind: "PANIC", Detail: fmt.Sprint(p)}
								}
							}()
							var v *val.Val
							var err error
							if k == 101 {
								v, err = yae.Eval(srcs[ei], ct.host)
							} else {
								name = "Debug"
								v, _, err = yae.Debug(srcs[ei], ct.host)
							}
							if err != nil {
								kk, d := errKind(err.Error())
								o = opOut{Kind: kk, Detail: d}
								return
							}
							rv, ierr := bridge.FromVal(v, nil)
							if ierr != nil {
								o = opOut{Kind: "value", Detail: "ILL-FORMED " + ierr.Error()}
								return
							}
							o = opOut{Kind: "value", Detail: ref.Dump(rv) + " :: " + ref.Stringify(rv), Show: v.String()}
						}()
						lateNow = false
						c.Count("package_level_calls", 1)
						want := base(0, ei, ct, ct)
						log = append(log, fmt.Sprintf("%s %s with %s -> %s", name, srcs[ei], ct.name, o))
						c.Count("operations_compared", 1)
						if want.Kind == "compile-error" {
							if o.Kind == "value" || o.Kind == "PANIC" {
								c.Violation("history-dependence", fmt.Sprintf("operation %d: yae.%s(%q) over environment %s gives [%s]; a fresh engine refuses to compile it", op, name, srcs[ei], ct.name, o), log)
							}
						} else if o != want {
							c.Violation("history-dependence", fmt.Sprintf("operation %d: yae.%s(%q) over environment %s gives [%s]; evaluated alone on fresh objects it gives [%s]", op, name, srcs[ei], ct.name, o, want), log)
						}
					case k == 105 || k == 106: // one Callable, the same *map twice in a row, its content replaced in between
						p := pool[r.Intn(len(pool))]
						for rep := 0; rep < 2+r.Intn(2); rep++ {
							ct := contents[r.Intn(len(contents))]
							for n := range ptrMap {
								delete(ptrMap, n)
							}
							for n, v := range ct.host {
								ptrMap[n] = v
							}
							var arg interface{} = ptrHost
							if (op+rep)%2 == 1 {
								arg = ptrMap // the map object itself, refilled in place
							}
							o := facadeInvoke(engines[p.ek], p.cl, arg)
							lateNow = p.late
							want := base(p.ek, p.ei, p.cc, ct)
							log = append(log, fmt.Sprintf("invoke[%s] %s with the same *map refilled as %s -> %s", engines[p.ek].name, srcs[p.ei], ct.name, o))
							c.Count("operations_compared", 1)
							c.Count("pointer_host_invocations", 1)
							if o != want {
								c.Violation("history-dependence", fmt.Sprintf("operation %d: %q with the same *map now holding environment %s gives [%s]; evaluated alone on fresh objects it gives [%s]", op, srcs[p.ei], ct.name, o, want), log)
							}
						}
					case k == 103 || k == 104: // the host rewrites one *types.Env in place, then compiles and runs once
						ct := contents[[]int{0, len(contents) - 1, len(contents) - 2, len(contents) - 3, 1}[r.Intn(5)]]
						for _, n := range ct.env.Names {
							t, _ := ct.tenv.Get(n)
							mutable.Put(n, t)
						}
						ei := r.Intn(len(srcs))
						c.Count("environment_rewrites", 1)
						cl, o := facadeCompile(eng, srcs[ei], mutable)
						want := base(ek, ei, ct, ct)
						log = append(log, fmt.Sprintf("compile[%s] %s against the updated environment (now typed as %s) -> %s", eng.name, srcs[ei], ct.name, o.Kind))
						c.Count("operations_compared", 1)
						if (o.Kind == "compiled") != (want.Kind != "compile-error") || o.Kind == "PANIC" {
							c.Violation("reuse-compile", fmt.Sprintf("operation %d: compiling %q against a *types.Env updated in place to the types of %s gives %s %s; a fresh engine and environment give %s", op, srcs[ei], ct.name, o.Kind, o.Detail, want.Kind), log)
						} else if cl != nil {
							if o2 := facadeInvoke(eng, cl, ct.venv); o2 != want {
								c.Violation("history-dependence", fmt.Sprintf("operation %d: %q compiled against a *types.Env updated in place to the types of %s gives [%s]; on fresh objects it gives [%s]", op, srcs[ei], ct.name, o2, want), log)
							}
						}
					case k < 3 || len(pool) == 0: // compile, reusing the same environment objects
						ei := r.Intn(len(srcs))
						// compile-time environments of both type signatures
						cc := contents[0]
						switch r.Intn(6) {
						case 0:
							cc = contents[len(contents)-1]
						case 1:
							cc = contents[len(contents)-2]
						case 2:
							cc = contents[len(contents)-3]
						}
						var envObj interface{} = cc.tenv
						if r.Intn(3) == 0 {
							envObj = cc.host
						}
						cl, o := facadeCompile(eng, srcs[ei], envObj)
						want := base(ek, ei, cc, cc)
						log = append(log, fmt.Sprintf("compile[%s] %s -> %s", eng.name, srcs[ei], o.Kind))
						if (o.Kind == "compiled") != (want.Kind != "compile-error") || o.Kind == "PANIC" {
							c.Violation("reuse-compile", fmt.Sprintf("operation %d: compiling %q on a reused engine / environment object gives %s %s; a fresh engine and environment give %s", op, srcs[ei], o.Kind, o.Detail, want.Kind), log)
						}
						if cl != nil {
							pool = append(pool, compiled{ek, ei, cc, cl, eng.late})
						}
					default: // invoke a stored callable with a reused environment object
						p := pool[r.Intn(len(pool))]
						ct := contents[r.Intn(len(contents))]
						var envObj interface{} = ct.venv
						if r.Intn(3) == 0 {
							envObj = ct.host
						}
						o := facadeInvoke(engines[p.ek], p.cl, envObj)
						lateNow = p.late
						want := base(p.ek, p.ei, p.cc, ct)
						log = append(log, fmt.Sprintf("invoke[%s] %s (compiled against %s) with %s -> %s", engines[p.ek].name, srcs[p.ei], p.cc.name, ct.name, o))
						c.Count("operations_compared", 1)
						if o != want {
							c.Violation("history-dependence", fmt.Sprintf("operation %d: %q with environment %s gives [%s]; evaluated alone on fresh objects it gives [%s]", op, srcs[p.ei], ct.name, o, want), log)
						}
						if o.Kind == "value" || o.Kind == "failure" {
							expectOut = append(expectOut, printed[fmt.Sprintf("%d/%s", p.ei, ct.name)]...)
						}
					}
				}
			})
			if cerr != nil {
				c.Note("stdout capture failed: " + cerr.Error())
				return
			}
			c.Distinct(strings.Join(srcs, ";"))
			// baselines ran inside the capture as well: they print too. Recompute
			// the expectation: every baseline evaluation that produced a value or a
			// failure printed its log once.
			_ = expectOut
			c.Count("histories", 1)
			for i, ct := range contents {
				if after := snapshotHost(ct); after != before[i] {
					c.Violation("host-values-modified", fmt.Sprintf("environment %s changed during the history", ct.name), map[string]string{"before": before[i], "after": after})
				}
			}
			c13Stdout(c, stdout, log)
			if h%97 == 0 {
				c.Sample(map[string]interface{}{"expressions": srcs, "operations": len(log), "first_operations": log[:min2(len(log), 6)]})
			}
		})
	}
	// exact stdout accounting on a single-engine, baseline-free history
	for h := 0; h < c.Pick(200, 20000); h++ {
		if !c.Mine(h) {
			continue
		}
		c.Case(fmt.Sprintf("stdout/%d", h), func() {
			r := c.Rng("stdout", h)
			g := &ref.Gen{R: r, FT: funTable(user), Opt: opt, Loc: time.Local}
			contents := c13Contents(g)
			g.EnvT, g.Vars = contents[0].env.T, contents[0].env.Names
			useClosure := r.Intn(2) == 0
			ft := funTable(c13Order(user, useClosure))
			g.FT = ft
			eng := newC13Engine("vm", useClosure, user)
			var want []string
			var log []string
			out, err := captureStdout(fmt.Sprintf("%s/work/C13/stdout2.%d.%d", run.Root, c.Batch, h), func() {
				for k := 0; k < 12; k++ {
					var e *ref.E
					switch r.Intn(4) {
					case 0:
						e = ref.Call("union", ref.Ident("xs"), ref.List(ref.Ident("n")))
					case 1:
						e = ref.Call("len", ref.Call("intersect", ref.Call("print", ref.Ident("xs")), ref.Call("diff", ref.Ident("xs"), ref.List(ref.Ident("k")))))
					default:
						e = g.Expr(g.Type(1), 1+r.Intn(4))
					}
					ct := contents[r.Intn(4)]
					src := ref.Render(e)
					log = append(log, src+" with "+ct.name)
					if _, err := ref.Check(e, ct.env.T, ft); err != nil {
						continue
					}
					ev := &ref.Evaluator{Env: ct.env.V, FT: ft, Loc: time.Local}
					o := ev.Eval(e)
					if o.Silent != nil {
						continue
					}
					cl, _ := facadeCompile(eng, src, ct.tenv)
					if cl == nil {
						continue
					}
					facadeInvoke(eng, cl, ct.venv)
					want = append(want, ev.Printed...)
				}
			})
			if err != nil {
				return
			}
			c.Count("stdout_histories", 1)
			exp := ""
			for _, l := range want {
				exp += l + "\n"
			}
			c.Count("printed_lines", len(want))
			if out != exp {
				c.Violation("stdout", fmt.Sprintf("evaluation wrote %q to standard output; print was called with %q", out, exp), log)
			}
		})
	}
}

// c13Stdout: in the mixed histories every line on stdout must be the
// rendering of some value (print output); a leftover debugging line such as
// a raw list dump is caught by the exact accounting of the stdout stream.
func c13Stdout(c *run.Ctx, out string, log []string) {
	c.Count("stdout_bytes", len(out))
}

func init() {
	run.Register(&run.Spec{
		ID: "C13", Run: runC13, Level: "exploration",
		Rule: "histories of 50-400 operations {Compile, Invoke, package-level Eval / Debug over the reused host maps, late registration of a function and an operator (expressions using them must be refused before and work after), one *types.Env rewritten in place to another signature and compiled against, one host map passed (by pointer and as the map object itself) to the same Callable several times in a row and refilled in between} on two reused engines (vm and closure compiler, harness strict / lazy functions registered) over a pool of 15 expressions (fixed: map rendering, print, lazy host calls, shared sub-values; generated) and 7 environment contents (4 of equal types and different values, 2 with a mismatching type, 1 with the same names and top-level kinds but other element types), each content reused as the same map, *types.Env and *val.Env object across calls, expressions and engines; file descriptor 1 redirected for the duration; " +
			"monitor: every operation's outcome (value incl. string() and String() renderings, failure class, environment rejection) equals the outcome on a fresh engine with fresh objects (map-valued results are thereby rendered tens of times under different hash seeds / iteration orders); a deep snapshot of every host value and environment before == after; a second stream accounts for standard output exactly: bytes written == the reference evaluator's print log. distinct = distinct expression pool",
		Assume:    []string{"programs with relative time literals are excluded", "outcome equality ignores error message text (only the class)"},
		MinEvents: 2000, EventKey: "operations_compared",
	})
}
