package props

import (
	"fmt"
	"math/rand"
	"sort"
	"strings"

	"github.com/goghcrow/yae/types"

	"verif/harness/bridge"
	"verif/harness/ref"
	"verif/harness/run"
)

func c17Atoms() []*ref.Ty {
	return []*ref.Ty{ref.TNum, ref.TStr, ref.TBool, ref.TTime, ref.TVar("a"), ref.TVar("b"), ref.TBot}
}

func keyableRef(t *ref.Ty) bool { return t.IsPrim() || t.K == ref.KVar || t.K == ref.KBot }

// c17Level builds all types one constructor above the given operand pool.
func c17Level(ops []*ref.Ty, funs bool) []*ref.Ty {
	var out []*ref.Ty
	for _, x := range ops {
		out = append(out, ref.TList(x), ref.TMaybe(x), ref.TObj(ref.F("f", x)))
		for _, y := range ops {
			if keyableRef(x) {
				out = append(out, ref.TMap(x, y))
			}
			out = append(out, ref.TObj(ref.F("f", x), ref.F("g", y)), ref.TObj(ref.F("g", y), ref.F("f", x)))
			if funs {
				out = append(out, ref.TFun([]*ref.Ty{x}, y))
			}
		}
	}
	return out
}

func keysOK(t *ref.Ty) bool {
	switch t.K {
	case ref.KList, ref.KMaybe:
		return keysOK(t.El)
	case ref.KMap:
		return keyableRef(t.Key) && keysOK(t.Val)
	case ref.KObj:
		for _, f := range t.Fs {
			if !keysOK(f.T) {
				return false
			}
		}
	case ref.KFun:
		for _, p := range t.Params {
			if !keysOK(p) {
				return false
			}
		}
		return keysOK(t.Ret)
	}
	return true
}

func tupleSexp(ts []*ref.Ty) string {
	xs := make([]string, len(ts))
	for i, t := range ts {
		xs[i] = t.Canon()
	}
	return "(" + strings.Join(xs, ", ") + ")"
}

// rel: equal, except that the bottom type on the right may face anything
func relBot(s, t *ref.Ty) bool {
	if t.K == ref.KBot {
		return true
	}
	if s.K != t.K {
		return false
	}
	switch s.K {
	case ref.KVar:
		return s.Var == t.Var
	case ref.KList, ref.KMaybe:
		return relBot(s.El, t.El)
	case ref.KMap:
		return relBot(s.Key, t.Key) && relBot(s.Val, t.Val)
	case ref.KObj:
		if len(s.Fs) != len(t.Fs) {
			return false
		}
		for _, f := range s.Fs {
			g := t.Field(f.Name)
			if g == nil || !relBot(f.T, g) {
				return false
			}
		}
		return true
	case ref.KFun:
		if len(s.Params) != len(t.Params) {
			return false
		}
		for i := range s.Params {
			if !relBot(s.Params[i], t.Params[i]) {
				return false
			}
		}
		return relBot(s.Ret, t.Ret)
	}
	return true
}

func varsIn(t *ref.Ty, out map[string]bool) {
	switch t.K {
	case ref.KVar:
		out[t.Var] = true
	case ref.KList, ref.KMaybe:
		varsIn(t.El, out)
	case ref.KMap:
		varsIn(t.Key, out)
		varsIn(t.Val, out)
	case ref.KObj:
		for _, f := range t.Fs {
			varsIn(f.T, out)
		}
	case ref.KFun:
		for _, p := range t.Params {
			varsIn(p, out)
		}
		varsIn(t.Ret, out)
	}
}

// checkUnify runs the real Unify on one pair of tuples (fresh nodes, shared
// variable identities) and applies the soundness / completeness oracles.
func checkUnify(c *run.Ctx, ss, ts []*ref.Ty) {
	c.Count("unify_pairs", 1)
	vars := map[string]*types.Type{}
	conv := func(xs []*ref.Ty) *types.Type {
		ys := make([]*types.Type, len(xs))
		for i, x := range xs {
			ys[i] = bridge.ToTypeShared(x, vars)
		}
		if len(ys) == 1 {
			return ys[0]
		}
		return types.Tuple(ys)
	}
	s, t := conv(ss), conv(ts)
	// real variable names -> reference names
	back := map[string]string{}
	for n, v := range vars {
		back[v.TyVar().Name] = n
	}
	m := map[string]*types.Type{}
	label := fmt.Sprintf("Unify(%s, %s)", tupleSexp(ss), tupleSexp(ts))
	snapS, snapT := s.String(), t.String()
	defer func() {
		// the operands are the caller's (a registered function's parameter
		// types, an environment's types): unification must not rewrite them
		if s.String() != snapS || t.String() != snapT {
			c.Violation("unify-mutates-operand", fmt.Sprintf("%s rewrote its operands: %s / %s became %s / %s", label, snapS, snapT, s.String(), t.String()), nil)
		}
	}()
	var res *types.Type
	if err := func() (err string) {
		defer func() {
			if r := recover(); r != nil {
				err = fmt.Sprint(r)
			}
		}()
		res = types.Unify(s, t, m)
		return ""
	}(); err != "" {
		// Unify signals some failures by panicking (a variable in map-key
		// position bound to a non-primitive type makes types.Map refuse the
		// substituted type; the checker turns that into a rejection). The
		// property speaks about successes, so this is a failure like nil.
		if !strings.Contains(err, "invalid type of map's key") && !strings.Contains(err, "not support recursive type") {
			c.Violation("unify-fault", fmt.Sprintf("%s panics: %s", label, err), nil)
			return
		}
		c.Count("unify_refusals_by_panic", 1)
		res = nil
	}
	// completeness for pattern vs variable-free, bottom-free type
	leftVars, rightVars := map[string]bool{}, map[string]bool{}
	ground, botFree := true, true
	for _, x := range ss {
		varsIn(x, leftVars)
		if x.HasBot() {
			botFree = false
		}
	}
	for _, x := range ts {
		varsIn(x, rightVars)
		if x.HasBot() {
			botFree = false
		}
		if !x.Ground() {
			ground = false
		}
	}
	if ground && botFree && len(ss) == len(ts) {
		c.Count("pattern_vs_ground", 1)
		mm := map[string]*ref.Ty{}
		want := true
		for i := range ss {
			if !ref.Match(ss[i], ts[i], mm) {
				want = false
				break
			}
		}
		if want != (res != nil) {
			c.Violation("unify-completeness", fmt.Sprintf("%s = %v, but an instantiation of the pattern %s", label, res != nil, map[bool]string{true: "exists", false: "does not exist"}[want]), nil)
			return
		}
	}
	if ground && botFree && len(ss) == len(ts) && len(leftVars) > 0 {
		// the same pattern object against a second, different instance
		inst := map[string]*ref.Ty{}
		alt := []*ref.Ty{ref.TStr, ref.TList(ref.TBool), ref.TNum, ref.TObj(ref.F("z", ref.TTime))}
		k := 0
		for v := range leftVars {
			inst[v] = alt[(len(v)+k+len(ss))%len(alt)]
			k++
		}
		ts2 := make([]*ref.Ty, len(ss))
		okInst := true
		for i := range ss {
			ts2[i] = ref.Subst(ss[i], inst)
			if !keysOK(ts2[i]) {
				okInst = false
			}
		}
		if okInst {
			ys := make([]*types.Type, len(ts2))
			for i, x := range ts2 {
				ys[i] = bridge.ToTypeShared(x, vars)
			}
			t2 := ys[0]
			if len(ys) > 1 {
				t2 = types.Tuple(ys)
			}
			var res2 *types.Type
			func() {
				defer func() { recover() }()
				res2 = types.Unify(s, t2, map[string]*types.Type{})
			}()
			c.Count("pattern_reused", 1)
			if res2 == nil {
				c.Violation("unify-completeness", fmt.Sprintf("%s was followed by Unify of the same pattern object with its instance %s, which fails", label, tupleSexp(ts2)), nil)
			}
		}
	}
	if res == nil {
		return
	}
	c.Count("unify_successes", 1)
	// the substitution, in reference form
	M := map[string]*ref.Ty{}
	for k, v := range m {
		rt, err := bridge.FromType(v)
		if err != nil {
			c.Violation("unify-binding", fmt.Sprintf("%s binds %s to an unreadable type: %v", label, k, err), nil)
			return
		}
		name, ok := back[k]
		if !ok {
			name = k
		}
		M[name] = renameVars(rt, back)
	}
	// acyclic: no variable reaches itself through the bindings
	for v := range M {
		seen := map[string]bool{}
		var reach func(x string) bool
		reach = func(x string) bool {
			b, ok := M[x]
			if !ok {
				return false
			}
			vs := map[string]bool{}
			varsIn(b, vs)
			for w := range vs {
				if w == v && !(b.K == ref.KVar && b.Var == x) {
					return true
				}
				if !seen[w] {
					seen[w] = true
					if reach(w) {
						return true
					}
				}
			}
			return false
		}
		if reach(v) {
			c.Violation("unify-occurs", fmt.Sprintf("%s succeeds with a cyclic substitution %s (variable %s occurs in its own binding)", label, substStr(M), v), nil)
			return
		}
	}
	apply := func(x *ref.Ty) *ref.Ty {
		for i := 0; i <= len(M)+1; i++ {
			x = ref.Subst(x, M)
		}
		return x
	}
	if len(ss) != len(ts) {
		c.Violation("unify-soundness", fmt.Sprintf("%s succeeds on tuples of different length", label), nil)
		return
	}
	for i := range ss {
		S, T := apply(ss[i]), apply(ts[i])
		if !relBot(S, T) {
			c.Violation("unify-soundness", fmt.Sprintf("%s succeeds with %s, but the substituted sides differ: %s vs %s", label, substStr(M), S.Canon(), T.Canon()), nil)
			return
		}
	}
}

func renameVars(t *ref.Ty, back map[string]string) *ref.Ty {
	m := map[string]*ref.Ty{}
	vs := map[string]bool{}
	varsIn(t, vs)
	for v := range vs {
		if n, ok := back[v]; ok {
			m[v] = ref.TVar(n)
		}
	}
	return ref.Subst(t, m)
}

func substStr(M map[string]*ref.Ty) string {
	var ks []string
	for k := range M {
		ks = append(ks, k)
	}
	sort.Strings(ks)
	xs := make([]string, len(ks))
	for i, k := range ks {
		xs[i] = k + ":=" + M[k].Canon()
	}
	return "{" + strings.Join(xs, ", ") + "}"
}

func checkEquals(c *run.Ctx, x, y *ref.Ty) {
	c.Count("equals_pairs", 1)
	vars := map[string]*types.Type{}
	tx, ty := bridge.ToTypeShared(x, vars), bridge.ToTypeShared(y, vars)
	want := ref.Eq(x, y)
	got1, got2 := types.Equals(tx, ty), types.Equals(ty, tx)
	if got1 != want || got2 != want {
		c.Violation("equals", fmt.Sprintf("Equals(%s, %s) = %v / reversed %v; structurally identical = %v", x.Canon(), y.Canon(), got1, got2, want), nil)
	}
	if !types.Equals(tx, tx) || !types.Equals(tx, bridge.ToTypeShared(x, vars)) {
		c.Violation("equals", fmt.Sprintf("Equals is not reflexive on %s", x.Canon()), nil)
	}
}

// sharedNodeCases: the same composite node used twice on one side.
func checkEqualsShared(c *run.Ctx, x, y *ref.Ty) {
	if x.IsPrim() || x.K == ref.KVar || x.K == ref.KBot {
		return
	}
	c.Count("equals_shared_pairs", 1)
	vars := map[string]*types.Type{}
	X := bridge.ToTypeShared(x, vars)
	left := []*types.Type{
		types.Obj([]types.Field{{Name: "p", Val: X}, {Name: "q", Val: X}}),
		types.Fun("f", []*types.Type{X, X}, types.Num),
		types.List(types.Obj([]types.Field{{Name: "p", Val: X}, {Name: "q", Val: types.Maybe(X)}})),
	}
	mk := func(a, b *ref.Ty) []*types.Type {
		A, B := bridge.ToTypeShared(a, vars), bridge.ToTypeShared(b, vars)
		return []*types.Type{
			types.Obj([]types.Field{{Name: "p", Val: A}, {Name: "q", Val: B}}),
			types.Fun("f", []*types.Type{A, B}, types.Num),
			types.List(types.Obj([]types.Field{{Name: "q", Val: types.Maybe(B)}, {Name: "p", Val: A}})),
		}
	}
	right := mk(x, y)
	want := ref.Eq(x, y)
	for i := range left {
		if got := types.Equals(left[i], right[i]); got != want {
			c.Violation("equals-shared-node", fmt.Sprintf("with one node for both occurrences of %s: Equals(C(X,X), C(%s,%s)) = %v, want %v (shape %d)", x.Canon(), x.Canon(), y.Canon(), got, want, i), nil)
		}
		if got := types.Equals(right[i], left[i]); got != want {
			c.Violation("equals-shared-node", fmt.Sprintf("with one node for both occurrences of %s: Equals(C(%s,%s), C(X,X)) = %v, want %v (shape %d)", x.Canon(), x.Canon(), y.Canon(), got, want, i), nil)
		}
	}
}

func runC17(c *run.Ctx) {
	atoms := c17Atoms()
	d1 := append(append([]*ref.Ty(nil), atoms...), c17Level(atoms, true)...)
	// depth 2 over a reduced operand pool
	red := []*ref.Ty{ref.TNum, ref.TStr, ref.TVar("a"), ref.TVar("b"), ref.TBot, ref.TList(ref.TNum), ref.TList(ref.TVar("a")), ref.TList(ref.TBot),
		ref.TMaybe(ref.TVar("b")), ref.TMap(ref.TStr, ref.TVar("a")), ref.TMap(ref.TVar("a"), ref.TNum), ref.TMap(ref.TVar("b"), ref.TNum),
		ref.TObj(ref.F("f", ref.TVar("a"))), ref.TObj(ref.F("f", ref.TNum), ref.F("g", ref.TVar("b"))), ref.TObj(ref.F("g", ref.TVar("b")), ref.F("f", ref.TNum)),
		ref.TFun([]*ref.Ty{ref.TVar("a")}, ref.TVar("b"))}
	d2 := append(append([]*ref.Ty(nil), d1...), c17Level(red, true)...)
	c.Note(fmt.Sprintf("types: %d of depth<=1, %d of depth<=2", len(d1), len(d2)))
	n := 0
	// all pairs of depth <= 1
	for i, x := range d1 {
		for j, y := range d1 {
			n++
			if !c.Mine(n) {
				continue
			}
			x, y := x, y
			c.Case(fmt.Sprintf("d1/%d/%d", i, j), func() {
				checkEquals(c, x, y)
				checkEqualsShared(c, x, y)
				checkUnify(c, []*ref.Ty{x}, []*ref.Ty{y})
				c.Distinct(x.Decl() + "~" + y.Decl())
			})
		}
	}
	// pairs of depth <= 2: all (thorough) or sampled (quick)
	stride := c.Pick(23, 1)
	for i, x := range d2 {
		for j, y := range d2 {
			n++
			if (i*31+j)%stride != 0 || !c.Mine(n) {
				continue
			}
			x, y := x, y
			c.Case(fmt.Sprintf("d2/%d/%d", i, j), func() {
				checkEquals(c, x, y)
				checkUnify(c, []*ref.Ty{x}, []*ref.Ty{y})
				if (i+j)%5 == 0 {
					checkEqualsShared(c, x, y)
				}
				c.Distinct(x.Decl() + "~" + y.Decl())
			})
		}
	}
	// tuples (argument lists): repeated variables across positions
	m := c.Pick(150000, 8000000)
	for i := 0; i < m; i++ {
		if !c.Mine(i) {
			continue
		}
		r := c.Rng("tuples", i)
		k := 2 + r.Intn(2)
		ss, ts := make([]*ref.Ty, k), make([]*ref.Ty, k)
		pool := d1
		if r.Intn(3) == 0 {
			pool = d2
		}
		for j := range ss {
			ss[j] = pool[r.Intn(len(pool))]
			ts[j] = pool[r.Intn(len(pool))]
			if r.Intn(3) == 0 { // a ground instance of the left type on the right
				inst := map[string]*ref.Ty{"a": pool[r.Intn(len(atoms)-3)], "b": d1[r.Intn(len(d1))]}
				if inst["b"].Ground() && !inst["b"].HasBot() {
					if cand := ref.Subst(ss[j], inst); keysOK(cand) {
						ts[j] = cand
					}
				}
			}
		}
		c.Case(fmt.Sprintf("tuple/%d", i), func() {
			c.Input(tupleSexp(ss) + " ~ " + tupleSexp(ts))
			checkUnify(c, ss, ts)
			c.Distinct(tupleSexp(ss) + "~" + tupleSexp(ts))
			if i%30011 == 0 {
				c.Sample(map[string]string{"left": tupleSexp(ss), "right": tupleSexp(ts)})
			}
		})
	}
	// random deeper / wider types: objects with up to 9 fields, depth up to 4,
	// tuples up to 6; the right side is the left side with a few leaves changed
	var deepTy func(r *rand.Rand, d int) *ref.Ty
	deepTy = func(r *rand.Rand, d int) *ref.Ty {
		if d <= 0 || r.Intn(4) == 0 {
			return atoms[r.Intn(len(atoms))]
		}
		switch r.Intn(6) {
		case 0:
			return ref.TList(deepTy(r, d-1))
		case 1:
			return ref.TMaybe(deepTy(r, d-1))
		case 2:
			return ref.TMap(atoms[r.Intn(len(atoms))], deepTy(r, d-1))
		case 3:
			n := 1 + r.Intn(3)
			ps := make([]*ref.Ty, n)
			for i := range ps {
				ps[i] = deepTy(r, d-1)
			}
			return ref.TFun(ps, deepTy(r, d-1))
		default:
			n := 1 + r.Intn(9)
			fs := make([]ref.Fld, n)
			for i := range fs {
				fs[i] = ref.Fld{Name: fmt.Sprintf("f%d", i), T: deepTy(r, d-1)}
			}
			r.Shuffle(n, func(i, j int) { fs[i], fs[j] = fs[j], fs[i] })
			return &ref.Ty{K: ref.KObj, Fs: fs}
		}
	}
	var tweak func(r *rand.Rand, t *ref.Ty) *ref.Ty
	tweak = func(r *rand.Rand, t *ref.Ty) *ref.Ty {
		switch t.K {
		case ref.KList:
			return ref.TList(tweak(r, t.El))
		case ref.KMaybe:
			return ref.TMaybe(tweak(r, t.El))
		case ref.KMap:
			return ref.TMap(t.Key, tweak(r, t.Val))
		case ref.KObj:
			fs := append([]ref.Fld(nil), t.Fs...)
			r.Shuffle(len(fs), func(i, j int) { fs[i], fs[j] = fs[j], fs[i] })
			if len(fs) > 0 && r.Intn(2) == 0 {
				i := r.Intn(len(fs))
				fs[i] = ref.Fld{Name: fs[i].Name, T: tweak(r, fs[i].T)}
			}
			return &ref.Ty{K: ref.KObj, Fs: fs}
		case ref.KFun:
			ps := append([]*ref.Ty(nil), t.Params...)
			if r.Intn(2) == 0 {
				return ref.TFun(ps, tweak(r, t.Ret))
			}
			i := r.Intn(len(ps))
			ps[i] = tweak(r, ps[i])
			return ref.TFun(ps, t.Ret)
		}
		if r.Intn(3) == 0 {
			return atoms[r.Intn(len(atoms))]
		}
		return t
	}
	for i := 0; i < c.Pick(40000, 3000000); i++ {
		if !c.Mine(i) {
			continue
		}
		r := c.Rng("deep", i)
		k := 1 + r.Intn(6)
		ss, ts := make([]*ref.Ty, k), make([]*ref.Ty, k)
		for j := range ss {
			ss[j] = deepTy(r, 1+r.Intn(4))
			switch r.Intn(3) {
			case 0:
				ts[j] = tweak(r, ss[j])
			case 1:
				inst := map[string]*ref.Ty{"a": atoms[r.Intn(4)], "b": atoms[r.Intn(4)]}
				ts[j] = tweak(r, ref.Subst(ss[j], inst))
			default:
				ts[j] = deepTy(r, 1+r.Intn(3))
			}
			if !keysOK(ts[j]) || !keysOK(ss[j]) {
				ss[j], ts[j] = ref.TNum, ref.TNum
			}
		}
		c.Case(fmt.Sprintf("deep/%d", i), func() {
			c.Input(tupleSexp(ss) + " ~ " + tupleSexp(ts))
			checkUnify(c, ss, ts)
			checkEquals(c, ss[0], ts[0])
			if k > 1 {
				checkEqualsShared(c, ss[0], ts[0])
			}
			c.Distinct(tupleSexp(ss) + "~" + tupleSexp(ts))
		})
	}
	// long chains of constructors: two types identical down to level d that
	// differ only at the leaf (or at one level), for every d up to 80 and at 128 / 200
	wraps := []func(*ref.Ty) *ref.Ty{
		func(t *ref.Ty) *ref.Ty { return ref.TList(t) },
		func(t *ref.Ty) *ref.Ty { return ref.TMaybe(t) },
		func(t *ref.Ty) *ref.Ty { return ref.TMap(ref.TStr, t) },
		func(t *ref.Ty) *ref.Ty { return ref.TObj(ref.F("f", t), ref.F("n", ref.TNum)) },
		func(t *ref.Ty) *ref.Ty { return ref.TFun([]*ref.Ty{ref.TNum}, t) },
		func(t *ref.Ty) *ref.Ty { return ref.TObj(ref.F("n", ref.TNum), ref.F("f", t)) },
	}
	depths := []int{}
	for d := 1; d <= 80; d++ {
		depths = append(depths, d)
	}
	depths = append(depths, 128, 200)
	for di, d := range depths {
		if !c.Mine(di) {
			continue
		}
		d := d
		c.Case(fmt.Sprintf("chain/%d", d), func() {
			r := c.Rng("chain", d)
			for style := 0; style < 4; style++ {
				build := func(leaf *ref.Ty, oddAt int) *ref.Ty {
					t := leaf
					for k := d; k >= 1; k-- {
						w := style
						if style == 3 {
							w = (k * 7) % len(wraps)
						}
						if k == oddAt { // a different constructor at one level
							w = (w + 1) % 3
						}
						t = wraps[w%len(wraps)](t)
					}
					return t
				}
				a1, a2, b := build(ref.TNum, 0), build(ref.TNum, 0), build(ref.TStr, 0)
				at := 1 + r.Intn(d)
				m := build(ref.TNum, at)
				v := build(ref.TVar("a"), 0)
				c.Input(fmt.Sprintf("chains of %d constructors, style %d", d, style))
				checkEquals(c, a1, a2)
				checkEquals(c, a1, b)
				checkEquals(c, a1, m)
				checkEquals(c, b, m)
				checkUnify(c, []*ref.Ty{ref.TVar("x"), ref.TVar("x")}, []*ref.Ty{a1, a2})
				checkUnify(c, []*ref.Ty{ref.TVar("x"), ref.TVar("x")}, []*ref.Ty{a1, b})
				checkUnify(c, []*ref.Ty{ref.TVar("x"), ref.TVar("x")}, []*ref.Ty{a1, m})
				checkUnify(c, []*ref.Ty{v}, []*ref.Ty{a1})
				checkUnify(c, []*ref.Ty{v, ref.TVar("a")}, []*ref.Ty{a1, ref.TStr})
				checkUnify(c, []*ref.Ty{v, v}, []*ref.Ty{a1, b})
			}
			c.Distinct(fmt.Sprintf("chain/%d", d))
		})
	}
	// transitivity of Equals on sampled triples with permuted object fields
	for i := 0; i < c.Pick(20000, 300000); i++ {
		if !c.Mine(i) {
			continue
		}
		r := c.Rng("triples", i)
		g := &ref.Gen{R: r}
		x := d2[r.Intn(len(d2))]
		y, z := g.Permute(x), g.Permute(x)
		if r.Intn(4) == 0 {
			z = d2[r.Intn(len(d2))]
		}
		c.Case(fmt.Sprintf("triple/%d", i), func() {
			checkEquals(c, x, y)
			checkEquals(c, y, z)
			checkEquals(c, x, z)
		})
	}
}

func init() {
	run.Register(&run.Spec{
		ID: "C17", Run: runC17, Level: "exploration",
		Rule: "all pairs of types of depth <= 1 over {num,str,bool,time,'a,'b,⊥} x {list, maybe, map, obj with 1-2 fields in both orders, fun} (231 types, 53 361 pairs, exhaustive: true), pairs of depth <= 2 over a reduced operand pool (all in thorough, 1/23 in quick), random 2-3 tuples with repeated variables on both sides and ground instances, random types to depth 4 with objects of up to 9 fields and tuples of up to 6 against tweaked copies (permuted fields, changed leaves, instantiations), Equals with one physical node used for two occurrences; chains of 1..80, 128 and 200 constructors (four styles) that differ only at the leaf or at one level; fresh nodes per side as the checker presents them; " +
			"monitors: Equals reflexive / symmetric / == reference structural equality; Unify never rewrites its operands and a pattern object stays usable for a second instance; on Unify success: own occurs check over the returned substitution, substituted sides equal (⊥ on the right may face anything); pattern vs variable-free ⊥-free type: success iff the reference one-way matcher finds an instantiation. distinct = distinct ordered pair",
		Assume:    []string{"argument tuples only as the outermost constructor", "no physical sharing between the two sides of Unify (the checker substitutes the left side freshly)"},
		MinEvents: 50000, EventKey: "unify_pairs",
	})
}
