package main

import (
	"fmt"
	"os"

	_ "verif/harness/props"
	"verif/harness/run"
)

func main() {
	if len(os.Args) < 2 {
		fmt.Fprintln(os.Stderr, "usage: verifd drive|work ...")
		os.Exit(2)
	}
	switch os.Args[1] {
	case "drive":
		os.Exit(run.DriveMain(os.Args[2:]))
	case "work":
		os.Exit(run.WorkMain(os.Args[2:]))
	case "builds":
		// builds <ID> <tier>: extra sanitizer builds this check needs
		if len(os.Args) >= 4 {
			if sp := run.Lookup(os.Args[2]); sp != nil {
				for _, b := range sp.Builds {
					if b == "asan" && os.Args[3] != "thorough" {
						continue
					}
					fmt.Println(b)
				}
			}
		}
	case "list":
		for _, id := range run.IDs() {
			fmt.Println(id)
		}
	default:
		fmt.Fprintln(os.Stderr, "unknown command", os.Args[1])
		os.Exit(2)
	}
}
