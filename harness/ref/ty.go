// Package ref holds the reference models: types, values, expressions, the
// reference type checker, evaluator, renderer and generators. It imports
// nothing from github.com/goghcrow/yae.
package ref

import (
	"sort"
	"strings"
)

type Kind int

const (
	KNum Kind = iota
	KStr
	KBool
	KTime
	KList
	KMap
	KObj
	KMaybe
	KFun
	KBot
	KVar
)

type Fld struct {
	Name string
	T    *Ty
}

// Ty is a reference type. Object fields keep their declaration order (Fs);
// equality ignores it.
type Ty struct {
	K      Kind
	El     *Ty // list element / maybe payload
	Key    *Ty // map
	Val    *Ty // map
	Fs     []Fld
	Params []*Ty // fun
	Ret    *Ty   // fun
	Var    string
}

var (
	TNum  = &Ty{K: KNum}
	TStr  = &Ty{K: KStr}
	TBool = &Ty{K: KBool}
	TTime = &Ty{K: KTime}
	TBot  = &Ty{K: KBot}
)

func TList(el *Ty) *Ty         { return &Ty{K: KList, El: el} }
func TMap(k, v *Ty) *Ty        { return &Ty{K: KMap, Key: k, Val: v} }
func TObj(fs ...Fld) *Ty       { return &Ty{K: KObj, Fs: fs} }
func TMaybe(el *Ty) *Ty        { return &Ty{K: KMaybe, El: el} }
func TFun(ps []*Ty, r *Ty) *Ty { return &Ty{K: KFun, Params: ps, Ret: r} }
func TVar(n string) *Ty        { return &Ty{K: KVar, Var: n} }
func F(name string, t *Ty) Fld { return Fld{name, t} }
func (t *Ty) IsPrim() bool     { return t.K == KNum || t.K == KStr || t.K == KBool || t.K == KTime }
func (t *Ty) Field(n string) *Ty {
	for _, f := range t.Fs {
		if f.Name == n {
			return f.T
		}
	}
	return nil
}

// Canon is the canonical serialisation: object fields sorted by name.
func (t *Ty) Canon() string {
	var b strings.Builder
	t.canon(&b, true)
	return b.String()
}

// Decl is the serialisation that keeps declaration order of object fields.
func (t *Ty) Decl() string {
	var b strings.Builder
	t.canon(&b, false)
	return b.String()
}

func (t *Ty) canon(b *strings.Builder, sorted bool) {
	if t == nil {
		b.WriteString("<nil>")
		return
	}
	switch t.K {
	case KNum:
		b.WriteString("num")
	case KStr:
		b.WriteString("str")
	case KBool:
		b.WriteString("bool")
	case KTime:
		b.WriteString("time")
	case KBot:
		b.WriteString("bot")
	case KVar:
		b.WriteString("'" + t.Var)
	case KList:
		b.WriteString("list[")
		t.El.canon(b, sorted)
		b.WriteString("]")
	case KMaybe:
		b.WriteString("maybe[")
		t.El.canon(b, sorted)
		b.WriteString("]")
	case KMap:
		b.WriteString("map[")
		t.Key.canon(b, sorted)
		b.WriteString(",")
		t.Val.canon(b, sorted)
		b.WriteString("]")
	case KObj:
		fs := t.Fs
		if sorted {
			fs = append([]Fld(nil), t.Fs...)
			sort.SliceStable(fs, func(i, j int) bool { return fs[i].Name < fs[j].Name })
		}
		b.WriteString("{")
		for i, f := range fs {
			if i > 0 {
				b.WriteString(",")
			}
			b.WriteString(f.Name)
			b.WriteString(":")
			f.T.canon(b, sorted)
		}
		b.WriteString("}")
	case KFun:
		b.WriteString("fun(")
		for i, p := range t.Params {
			if i > 0 {
				b.WriteString(",")
			}
			p.canon(b, sorted)
		}
		b.WriteString(")->")
		t.Ret.canon(b, sorted)
	}
}

// Eq is structural equality with object fields compared by name.
func Eq(a, b *Ty) bool {
	if a == nil || b == nil {
		return a == b
	}
	if a.K != b.K {
		return false
	}
	switch a.K {
	case KVar:
		return a.Var == b.Var
	case KList, KMaybe:
		return Eq(a.El, b.El)
	case KMap:
		return Eq(a.Key, b.Key) && Eq(a.Val, b.Val)
	case KObj:
		if len(a.Fs) != len(b.Fs) {
			return false
		}
		for _, f := range a.Fs {
			g := b.Field(f.Name)
			if g == nil || !Eq(f.T, g) {
				return false
			}
		}
		return true
	case KFun:
		if len(a.Params) != len(b.Params) {
			return false
		}
		for i := range a.Params {
			if !Eq(a.Params[i], b.Params[i]) {
				return false
			}
		}
		return Eq(a.Ret, b.Ret)
	}
	return true
}

// Ground reports whether the type contains no type variable.
func (t *Ty) Ground() bool {
	switch t.K {
	case KVar:
		return false
	case KList, KMaybe:
		return t.El.Ground()
	case KMap:
		return t.Key.Ground() && t.Val.Ground()
	case KObj:
		for _, f := range t.Fs {
			if !f.T.Ground() {
				return false
			}
		}
	case KFun:
		for _, p := range t.Params {
			if !p.Ground() {
				return false
			}
		}
		return t.Ret.Ground()
	}
	return true
}

// HasBot reports whether the bottom type occurs anywhere in t.
func (t *Ty) HasBot() bool {
	switch t.K {
	case KBot:
		return true
	case KList, KMaybe:
		return t.El.HasBot()
	case KMap:
		return t.Key.HasBot() || t.Val.HasBot()
	case KObj:
		for _, f := range t.Fs {
			if f.T.HasBot() {
				return true
			}
		}
	case KFun:
		for _, p := range t.Params {
			if p.HasBot() {
				return true
			}
		}
		return t.Ret.HasBot()
	}
	return false
}

// Subst applies a substitution of type variables.
func Subst(t *Ty, m map[string]*Ty) *Ty {
	switch t.K {
	case KVar:
		if r, ok := m[t.Var]; ok {
			return r
		}
		return t
	case KList:
		return TList(Subst(t.El, m))
	case KMaybe:
		return TMaybe(Subst(t.El, m))
	case KMap:
		return TMap(Subst(t.Key, m), Subst(t.Val, m))
	case KObj:
		fs := make([]Fld, len(t.Fs))
		for i, f := range t.Fs {
			fs[i] = Fld{f.Name, Subst(f.T, m)}
		}
		return &Ty{K: KObj, Fs: fs}
	case KFun:
		ps := make([]*Ty, len(t.Params))
		for i, p := range t.Params {
			ps[i] = Subst(p, m)
		}
		return TFun(ps, Subst(t.Ret, m))
	}
	return t
}

// Match is one-way matching: finds m with Subst(pat, m) == target (target is
// variable-free). Repeated variables must agree (by Eq). Bottom in the target
// is an ordinary constant equal only to itself.
func Match(pat, target *Ty, m map[string]*Ty) bool {
	if pat.K == KVar {
		if old, ok := m[pat.Var]; ok {
			return Eq(old, target)
		}
		m[pat.Var] = target
		return true
	}
	if pat.K != target.K {
		return false
	}
	switch pat.K {
	case KList, KMaybe:
		return Match(pat.El, target.El, m)
	case KMap:
		return Match(pat.Key, target.Key, m) && Match(pat.Val, target.Val, m)
	case KObj:
		if len(pat.Fs) != len(target.Fs) {
			return false
		}
		for _, f := range pat.Fs {
			g := target.Field(f.Name)
			if g == nil || !Match(f.T, g, m) {
				return false
			}
		}
		return true
	case KFun:
		if len(pat.Params) != len(target.Params) {
			return false
		}
		for i := range pat.Params {
			if !Match(pat.Params[i], target.Params[i], m) {
				return false
			}
		}
		return Match(pat.Ret, target.Ret, m)
	}
	return true
}
