package ref

import "strings"

// effective surface form of a call node (after the legality fall-backs of
// the renderer)
type surf int

const (
	sCall surf = iota
	sInfix
	sPrefix
	sTernary
	sMethod
)

func surface(e *E) surf {
	switch e.Form {
	case FInfix:
		if _, ok := infixOps[e.Name]; ok && len(e.Args) == 2 {
			return sInfix
		}
	case FPrefix:
		if prefixOps[e.Name] && len(e.Args) == 1 {
			return sPrefix
		}
	case FTernary:
		if e.Name == "if" && len(e.Args) == 3 {
			return sTernary
		}
	case FMethod:
		if len(e.Args) >= 1 && isIdentName(e.Name) && !IsInfixOp(e.Name) && !IsPrefixOp(e.Name) {
			return sMethod
		}
	}
	if !isIdentName(e.Name) || IsInfixOp(e.Name) || IsPrefixOp(e.Name) {
		if len(e.Args) == 2 && IsInfixOp(e.Name) {
			return sInfix
		}
		if len(e.Args) == 1 && IsPrefixOp(e.Name) {
			return sPrefix
		}
	}
	return sCall
}

func topBP(e *E) float64 {
	switch e.K {
	case EMember, ESubscript:
		return bpMember
	case EDynCall:
		return bpCall
	case ECall:
		switch surface(e) {
		case sInfix:
			return infixOps[e.Name].bp
		case sPrefix:
			return bpPrefix
		case sTernary:
			return bpCond
		}
		return bpCall
	}
	return bpAtom
}

type colWriter struct {
	sb   strings.Builder
	col  int // runes written so far (single-line output)
	cols map[*E]int
}

func (w *colWriter) s(x string) {
	w.sb.WriteString(x)
	for range x {
		w.col++
	}
}

// RenderCols renders like Render and records, for every identifier, call,
// member and subscript node, the 0-based rune column of the token the debug
// mode attributes the node to: the identifier itself, the operator / '?' /
// '(' of a call, the '.' of a member access, the '[' of a subscript.
func RenderCols(e *E) (string, map[*E]int) {
	w := &colWriter{cols: map[*E]int{}}
	w.expr(e)
	return w.sb.String(), w.cols
}

func (w *colWriter) wrapped(e *E, need float64, strict bool, forceParen bool) {
	bp := topBP(e)
	if forceParen || bp < need || (strict && bp == need) {
		w.s("(")
		w.expr(e)
		w.s(")")
		return
	}
	w.expr(e)
}

func (w *colWriter) list(xs []*E) {
	for i, a := range xs {
		if i > 0 {
			w.s(", ")
		}
		w.expr(a)
	}
}

func (w *colWriter) expr(e *E) {
	switch e.K {
	case ENum, EStr, ETime:
		w.s(e.Text)
	case EBool:
		if e.Bool {
			w.s("true")
		} else {
			w.s("false")
		}
	case EIdent:
		w.cols[e] = w.col
		w.s(e.Name)
	case EList:
		w.s("[")
		w.list(e.Args)
		w.s("]")
	case EMap:
		if len(e.Args) == 0 {
			w.s("[:]")
			return
		}
		w.s("[")
		for i := range e.Args {
			if i > 0 {
				w.s(", ")
			}
			w.wrapped(e.Keys[i], bpCond, true, false)
			w.s(": ")
			w.expr(e.Args[i])
		}
		w.s("]")
	case EObj:
		w.s("{")
		for i := range e.Args {
			if i > 0 {
				w.s(", ")
			}
			w.s(e.Fields[i] + ": ")
			w.expr(e.Args[i])
		}
		w.s("}")
	case EGroup:
		w.s("(")
		w.expr(e.Args[0])
		w.s(")")
	case EMember:
		w.wrapped(e.Args[0], bpCall, false, e.Args[0].K == ENum)
		w.cols[e] = w.col
		w.s("." + e.Name)
	case ESubscript:
		w.wrapped(e.Args[0], bpCall, false, false)
		w.cols[e] = w.col
		w.s("[")
		w.expr(e.Args[1])
		w.s("]")
	case EDynCall:
		c := e.Args[0]
		w.wrapped(c, bpCall, false, c.K == EIdent || c.K == EMember)
		w.cols[e] = w.col
		w.s("(")
		w.list(e.Args[1:])
		w.s(")")
	case ECall:
		switch surface(e) {
		case sInfix:
			op := infixOps[e.Name]
			w.wrapped(e.Args[0], op.bp, op.assoc != 0, false)
			w.s(" ")
			w.cols[e] = w.col
			w.s(e.Name + " ")
			w.wrapped(e.Args[1], op.bp, op.assoc != 1, false)
		case sPrefix:
			w.cols[e] = w.col
			w.s(e.Name)
			x := e.Args[0]
			paren := topBP(x) <= bpPrefix
			if isIdentName(e.Name) {
				w.s(" ")
			} else if !paren {
				// keep operator characters apart: "- -x" cannot arise (a prefix
				// operand is parenthesised), but a literal may start with one
				t, _ := render(x)
				if len(t) > 0 && strings.ContainsRune("+-!", rune(t[0])) {
					w.s(" ")
				}
			}
			w.wrapped(x, bpPrefix, true, false)
		case sTernary:
			w.wrapped(e.Args[0], bpCond, true, false)
			w.s(" ")
			w.cols[e] = w.col
			w.s("? ")
			w.expr(e.Args[1])
			w.s(" : ")
			w.wrapped(e.Args[2], bpCond, false, false)
		case sMethod:
			w.wrapped(e.Args[0], bpCall, false, e.Args[0].K == ENum)
			w.s("." + e.Name)
			w.cols[e] = w.col
			w.s("(")
			w.list(e.Args[1:])
			w.s(")")
		default:
			w.s(e.Name)
			w.cols[e] = w.col
			w.s("(")
			w.list(e.Args)
			w.s(")")
		}
	}
}
