package ref

import (
	"math"
	"regexp"
	"unicode/utf8"
)

// FailClass is a documented partial-operation failure.
type FailClass string

const (
	FIndex FailClass = "INDEX"
	FKey   FailClass = "KEY"
	FMod0  FailClass = "MOD0"
	FRegex FailClass = "REGEX"
)

// Fail is raised (as a panic inside the evaluator) by partial operations.
type Fail struct {
	Class  FailClass
	Detail string
}

// Silent is raised when the language gives no meaning to an operation (the
// reference then makes no prediction for this program).
type Silent struct{ Why string }

// Arg is an evaluated argument or, for lazy functions, a thunk.
type Arg struct {
	V     *V
	Thunk func() *V
}

func (a Arg) Force() *V {
	if a.Thunk != nil {
		return a.Thunk()
	}
	return a.V
}

// Fun is one registered function (built-in or harness-defined).
type Fun struct {
	Name   string
	Params []*Ty
	Ret    *Ty
	Lazy   bool
	User   string // non-empty for harness-registered functions (bridge key)
	Impl   func(ev *Evaluator, t *Ty, args []Arg) *V
}

func (f *Fun) Mono() bool {
	for _, p := range f.Params {
		if !p.Ground() {
			return false
		}
	}
	return f.Ret.Ground()
}

// FunTable is the ordered registration list.
type FunTable struct {
	Funs []*Fun
}

func (ft *FunTable) Add(fs ...*Fun) *FunTable {
	ft.Funs = append(ft.Funs, fs...)
	return ft
}

func (ft *FunTable) Clone() *FunTable {
	return &FunTable{Funs: append([]*Fun(nil), ft.Funs...)}
}

// Resolve implements the documented overload rule. It returns the chosen
// overload and the instantiated result type.
func (ft *FunTable) Resolve(name string, args []*Ty) (*Fun, *Ty) {
	// 1. exactly matching monomorphic overload (a later registration with the
	// same parameter list replaces an earlier one)
	var mono *Fun
	for _, f := range ft.Funs {
		if f.Name != name || len(f.Params) != len(args) || !f.Mono() {
			continue
		}
		ok := true
		for i := range args {
			if !Eq(f.Params[i], args[i]) {
				ok = false
				break
			}
		}
		if ok {
			mono = f
		}
	}
	if mono != nil {
		return mono, mono.Ret
	}
	// 2. first registered polymorphic overload that can be instantiated
	for _, f := range ft.Funs {
		if f.Name != name || len(f.Params) != len(args) || f.Mono() {
			continue
		}
		m := map[string]*Ty{}
		ok := true
		for i := range args {
			if !Match(f.Params[i], args[i], m) {
				ok = false
				break
			}
		}
		if !ok {
			continue
		}
		r := Subst(f.Ret, m)
		if !r.Ground() {
			continue
		}
		return f, r
	}
	return nil, nil
}

func num1(f func(float64) float64) func(*Evaluator, *Ty, []Arg) *V {
	return func(_ *Evaluator, _ *Ty, a []Arg) *V { return VNum(f(a[0].V.N)) }
}
func num2(f func(x, y float64) float64) func(*Evaluator, *Ty, []Arg) *V {
	return func(_ *Evaluator, _ *Ty, a []Arg) *V { return VNum(f(a[0].V.N, a[1].V.N)) }
}
func cmpNum(f func(x, y float64) bool) func(*Evaluator, *Ty, []Arg) *V {
	return func(_ *Evaluator, _ *Ty, a []Arg) *V { return VBool(f(a[0].V.N, a[1].V.N)) }
}
func cmpAny(f func(x, y *V) bool) func(*Evaluator, *Ty, []Arg) *V {
	return func(_ *Evaluator, _ *Ty, a []Arg) *V { return VBool(f(a[0].V, a[1].V)) }
}

// documented tolerance comparison; equal infinities are equal, NaN equals nothing
func numEQ(x, y float64) bool { return x == y || math.Abs(x-y) < Eps }
func numNE(x, y float64) bool { return !numEQ(x, y) }

// RefMod is the documented %: remainder of the operands truncated toward
// zero; undefined (MOD0) when the truncated divisor is 0; no meaning outside
// the int64 range.
func RefMod(x, y float64) float64 {
	lim := 9223372036854775808.0
	if math.IsNaN(x) || math.IsNaN(y) || math.IsInf(x, 0) || math.IsInf(y, 0) ||
		x >= lim || x < -lim || y >= lim || y < -lim {
		panic(Silent{"% outside int64"})
	}
	xi, yi := int64(math.Trunc(x)), int64(math.Trunc(y))
	if yi == 0 {
		panic(Fail{FMod0, "modulo by zero"})
	}
	return float64(xi % yi) // Go defines MinInt64 % -1 == 0 (no trap)
}

// RefIndex is the documented list index: truncation toward zero, defined for
// 0 <= i < n only.
func RefIndex(i float64, n int) (int, bool) {
	if math.IsNaN(i) || math.IsInf(i, 0) || i >= 9223372036854775808.0 || i < -9223372036854775808.0 {
		return 0, false
	}
	k := int64(math.Trunc(i))
	if k < 0 || k >= int64(n) {
		return 0, false
	}
	return int(k), true
}

func setOf(xs []*V) (map[string]*V, []string) {
	m := map[string]*V{}
	var order []string
	for _, x := range xs {
		k := Show(x)
		if _, ok := m[k]; !ok {
			m[k] = x
			order = append(order, k)
		}
	}
	return m, order
}

var tA, tB, tK, tVv = TVar("a"), TVar("b"), TVar("k"), TVar("v")

// Builtins returns the documented built-in functions in their registration
// order (alphabetical by their Go identifier in the project: the order is
// observable only among polymorphic overloads of one name and arity).
func Builtins() *FunTable {
	ft := &FunTable{}
	p := func(ts ...*Ty) []*Ty { return ts }
	add := func(name string, params []*Ty, ret *Ty, impl func(*Evaluator, *Ty, []Arg) *V) {
		ft.Add(&Fun{Name: name, Params: params, Ret: ret, Impl: impl})
	}
	lazy := func(name string, params []*Ty, ret *Ty, impl func(*Evaluator, *Ty, []Arg) *V) {
		ft.Add(&Fun{Name: name, Params: params, Ret: ret, Lazy: true, Impl: impl})
	}
	la, mkv := TList(tA), TMap(tK, tVv)

	add("abs", p(TNum), TNum, num1(math.Abs))
	add("+", p(TNum), TNum, num1(func(x float64) float64 { return x }))
	add("+", p(TNum, TNum), TNum, num2(func(x, y float64) float64 { return x + y }))
	add("+", p(TStr, TStr), TStr, func(_ *Evaluator, _ *Ty, a []Arg) *V { return VStr(a[0].V.S + a[1].V.S) })
	add("ceil", p(TNum), TNum, num1(math.Ceil))
	add("diff", p(la, la), la, func(_ *Evaluator, _ *Ty, a []Arg) *V {
		xm, xo := setOf(a[0].V.L)
		ym, _ := setOf(a[1].V.L)
		out := &V{T: a[0].V.T}
		for _, k := range xo {
			if _, ok := ym[k]; !ok {
				out.L = append(out.L, xm[k])
			}
		}
		return out
	})
	add("/", p(TNum, TNum), TNum, num2(func(x, y float64) float64 { return x / y }))
	add("==", p(TBool, TBool), TBool, cmpAny(func(x, y *V) bool { return x.B == y.B }))
	add("==", p(la, la), TBool, cmpAny(ValEq))
	add("==", p(mkv, mkv), TBool, cmpAny(ValEq))
	add("==", p(TNum, TNum), TBool, cmpNum(numEQ))
	add("==", p(TStr, TStr), TBool, cmpAny(func(x, y *V) bool { return x.S == y.S }))
	add("==", p(TTime, TTime), TBool, cmpAny(func(x, y *V) bool { return x.Tm.Equal(y.Tm) }))
	add("^", p(TNum, TNum), TNum, num2(math.Pow))
	add("floor", p(TNum), TNum, num1(math.Floor))
	add("get", p(la, TNum, tA), tA, func(_ *Evaluator, _ *Ty, a []Arg) *V {
		if i, ok := RefIndex(a[1].V.N, len(a[0].V.L)); ok {
			return a[0].V.L[i]
		}
		return a[2].V
	})
	add("get", p(mkv, tK, tVv), tVv, func(_ *Evaluator, _ *Ty, a []Arg) *V {
		if v, ok := a[0].V.MapGet(a[1].V); ok {
			return v
		}
		return a[2].V
	})
	add("get", p(TMaybe(tA), tA), tA, func(_ *Evaluator, _ *Ty, a []Arg) *V {
		if a[0].V.P != nil {
			return a[0].V.P
		}
		return a[1].V
	})
	add(">=", p(TNum, TNum), TBool, cmpNum(func(x, y float64) bool { return x >= y || numEQ(x, y) }))
	add(">=", p(TTime, TTime), TBool, cmpAny(func(x, y *V) bool { return !x.Tm.Before(y.Tm) }))
	add(">", p(TNum, TNum), TBool, cmpNum(func(x, y float64) bool { return x > y && numNE(x, y) }))
	add(">", p(TTime, TTime), TBool, cmpAny(func(x, y *V) bool { return x.Tm.After(y.Tm) }))
	lazy("if", p(TBool, tA, tA), tA, func(_ *Evaluator, _ *Ty, a []Arg) *V {
		if a[0].Force().B {
			return a[1].Force()
		}
		return a[2].Force()
	})
	add("intersect", p(la, la), la, func(_ *Evaluator, _ *Ty, a []Arg) *V {
		_, xo := setOf(a[0].V.L)
		ym, _ := setOf(a[1].V.L)
		out := &V{T: a[0].V.T}
		for _, k := range xo {
			if v, ok := ym[k]; ok {
				out.L = append(out.L, v)
			}
		}
		return out
	})
	add("isset", p(mkv, tK), TBool, func(_ *Evaluator, _ *Ty, a []Arg) *V {
		_, ok := a[0].V.MapGet(a[1].V)
		return VBool(ok)
	})
	add("len", p(la), TNum, func(_ *Evaluator, _ *Ty, a []Arg) *V { return VNum(float64(len(a[0].V.L))) })
	add("len", p(mkv), TNum, func(_ *Evaluator, _ *Ty, a []Arg) *V { return VNum(float64(len(a[0].V.M))) })
	add("len", p(TStr), TNum, func(_ *Evaluator, _ *Ty, a []Arg) *V {
		return VNum(float64(utf8.RuneCountInString(a[0].V.S)))
	})
	add("<=", p(TNum, TNum), TBool, cmpNum(func(x, y float64) bool { return x <= y || numEQ(x, y) }))
	add("<=", p(TTime, TTime), TBool, cmpAny(func(x, y *V) bool { return !x.Tm.After(y.Tm) }))
	lazy("&&", p(TBool, TBool), TBool, func(_ *Evaluator, _ *Ty, a []Arg) *V {
		if a[0].Force().B {
			return VBool(a[1].Force().B)
		}
		return VBool(false)
	})
	add("!", p(TBool), TBool, func(_ *Evaluator, _ *Ty, a []Arg) *V { return VBool(!a[0].V.B) })
	lazy("||", p(TBool, TBool), TBool, func(_ *Evaluator, _ *Ty, a []Arg) *V {
		if a[0].Force().B {
			return VBool(true)
		}
		return VBool(a[1].Force().B)
	})
	add("<", p(TNum, TNum), TBool, cmpNum(func(x, y float64) bool { return x < y && numNE(x, y) }))
	add("<", p(TTime, TTime), TBool, cmpAny(func(x, y *V) bool { return x.Tm.Before(y.Tm) }))
	add("match", p(TStr, TStr), TBool, func(_ *Evaluator, _ *Ty, a []Arg) *V {
		re, err := regexp.Compile(a[0].V.S)
		if err != nil {
			panic(Fail{FRegex, err.Error()})
		}
		return VBool(re.MatchString(a[1].V.S))
	})
	maxL := func(f func(x, y float64) float64) func(*Evaluator, *Ty, []Arg) *V {
		return func(_ *Evaluator, _ *Ty, a []Arg) *V {
			xs := a[0].V.L
			if len(xs) == 0 {
				return VNum(0)
			}
			m := xs[0].N
			for _, x := range xs[1:] {
				m = f(m, x.N)
			}
			return VNum(m)
		}
	}
	add("max", p(TList(TNum)), TNum, maxL(math.Max))
	add("max", p(TNum, TNum), TNum, num2(math.Max))
	add("min", p(TList(TNum)), TNum, maxL(math.Min))
	add("min", p(TNum, TNum), TNum, num2(math.Min))
	add("%", p(TNum, TNum), TNum, num2(RefMod))
	add("*", p(TNum, TNum), TNum, num2(func(x, y float64) float64 { return x * y }))
	add("!=", p(TBool, TBool), TBool, cmpAny(func(x, y *V) bool { return x.B != y.B }))
	add("!=", p(la, la), TBool, cmpAny(func(x, y *V) bool { return !ValEq(x, y) }))
	add("!=", p(mkv, mkv), TBool, cmpAny(func(x, y *V) bool { return !ValEq(x, y) }))
	add("!=", p(TNum, TNum), TBool, cmpNum(numNE))
	add("!=", p(TStr, TStr), TBool, cmpAny(func(x, y *V) bool { return x.S != y.S }))
	add("!=", p(TTime, TTime), TBool, cmpAny(func(x, y *V) bool { return !x.Tm.Equal(y.Tm) }))
	add("print", p(tA), tA, func(ev *Evaluator, _ *Ty, a []Arg) *V {
		ev.Printed = append(ev.Printed, Show(a[0].V))
		return a[0].V
	})
	add("round", p(TNum), TNum, num1(math.Round))
	add("string", p(tA), TStr, func(_ *Evaluator, _ *Ty, a []Arg) *V { return VStr(Stringify(a[0].V)) })
	add("strtotime", p(TStr), TTime, func(ev *Evaluator, _ *Ty, a []Arg) *V {
		ts, ok := RefStrtotime(a[0].V.S, ev.Loc)
		if !ok {
			panic(Silent{"strtotime form outside the reference: " + a[0].V.S})
		}
		return VTime(unixTime(ts))
	})
	add("-", p(TNum), TNum, num1(func(x float64) float64 { return -x }))
	add("-", p(TNum, TNum), TNum, num2(func(x, y float64) float64 { return x - y }))
	add("-", p(TTime, TTime), TNum, func(_ *Evaluator, _ *Ty, a []Arg) *V {
		return VNum(a[0].V.Tm.Sub(a[1].V.Tm).Seconds())
	})
	add("union", p(la, la), la, func(_ *Evaluator, _ *Ty, a []Arg) *V {
		xm, xo := setOf(a[0].V.L)
		ym, yo := setOf(a[1].V.L)
		out := &V{T: a[0].V.T}
		for _, k := range xo {
			out.L = append(out.L, xm[k])
		}
		for _, k := range yo {
			if _, ok := xm[k]; !ok {
				out.L = append(out.L, ym[k])
			}
		}
		return out
	})
	return ft
}
