package ref

import (
	"regexp"
	"strconv"
	"time"
)

func unixTime(ts int64) time.Time { return time.Unix(ts, 0) }

var (
	reDate   = regexp.MustCompile(`^(\d{4})-(\d{2})-(\d{2})$`)
	reDT     = regexp.MustCompile(`^(\d{4})-(\d{2})-(\d{2})[ T](\d{2}):(\d{2}):(\d{2})$`)
	reDTZ    = regexp.MustCompile(`^(\d{4})-(\d{2})-(\d{2})T(\d{2}):(\d{2}):(\d{2})Z$`)
	reDTOff  = regexp.MustCompile(`^(\d{4})-(\d{2})-(\d{2})[ T](\d{2}):(\d{2}):(\d{2}) ?([+-])(\d{2}):?(\d{2})$`)
	reAtUnix = regexp.MustCompile(`^@(-?\d{1,12})$`)
)

func atoi(s string) int { n, _ := strconv.Atoi(s); return n }

// RefStrtotime is the reference for the absolute date-time forms only:
// YYYY-MM-DD, YYYY-MM-DD HH:MM:SS, YYYY-MM-DDTHH:MM:SS, ...Z, explicit
// +HHMM / +HH:MM offsets and @unix. Local forms are read in loc.
func RefStrtotime(s string, loc *time.Location) (int64, bool) {
	valid := func(y, mo, d, h, mi, sec int) bool {
		if mo < 1 || mo > 12 || d < 1 || h > 23 || mi > 59 || sec > 59 {
			return false
		}
		return d <= time.Date(y, time.Month(mo)+1, 0, 0, 0, 0, 0, time.UTC).Day()
	}
	if m := reDate.FindStringSubmatch(s); m != nil {
		y, mo, d := atoi(m[1]), atoi(m[2]), atoi(m[3])
		if !valid(y, mo, d, 0, 0, 0) {
			return 0, false
		}
		return time.Date(y, time.Month(mo), d, 0, 0, 0, 0, loc).Unix(), true
	}
	if m := reDTZ.FindStringSubmatch(s); m != nil {
		y, mo, d, h, mi, sec := atoi(m[1]), atoi(m[2]), atoi(m[3]), atoi(m[4]), atoi(m[5]), atoi(m[6])
		if !valid(y, mo, d, h, mi, sec) {
			return 0, false
		}
		return time.Date(y, time.Month(mo), d, h, mi, sec, 0, time.UTC).Unix(), true
	}
	if m := reDT.FindStringSubmatch(s); m != nil {
		y, mo, d, h, mi, sec := atoi(m[1]), atoi(m[2]), atoi(m[3]), atoi(m[4]), atoi(m[5]), atoi(m[6])
		if !valid(y, mo, d, h, mi, sec) {
			return 0, false
		}
		return time.Date(y, time.Month(mo), d, h, mi, sec, 0, loc).Unix(), true
	}
	if m := reDTOff.FindStringSubmatch(s); m != nil {
		y, mo, d, h, mi, sec := atoi(m[1]), atoi(m[2]), atoi(m[3]), atoi(m[4]), atoi(m[5]), atoi(m[6])
		if !valid(y, mo, d, h, mi, sec) {
			return 0, false
		}
		off := atoi(m[8])*3600 + atoi(m[9])*60
		if atoi(m[8]) > 14 || atoi(m[9]) > 59 {
			return 0, false
		}
		if m[7] == "-" {
			off = -off
		}
		return time.Date(y, time.Month(mo), d, h, mi, sec, 0, time.UTC).Unix() - int64(off), true
	}
	if m := reAtUnix.FindStringSubmatch(s); m != nil {
		n, err := strconv.ParseInt(m[1], 10, 64)
		if err != nil {
			return 0, false
		}
		return n, true
	}
	return 0, false
}
