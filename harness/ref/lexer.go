package ref

import (
	"fmt"
	"sort"
	"strings"
	"unicode"
)

// Tok is a reference token.
type Tok struct {
	Kind   string // punctuation / operator text, or <sym> <num> <str> <time> true false
	Lexeme string
	Idx    int // rune index, inclusive
	IdxEnd int // exclusive
	Line   int // 0-based
	Col    int // 0-based, in runes
}

const OperatorChars = ":!#$%^&*+./<=>?@\\ˆ|~-"

func isOpChar(r rune) bool { return strings.ContainsRune(OperatorChars, r) }

func isIdentStart(r rune) bool {
	return r == '_' || (r >= 'a' && r <= 'z') || (r >= 'A' && r <= 'Z') || unicode.IsLetter(r)
}
func isIdentPart(r rune) bool { return isIdentStart(r) || (r >= '0' && r <= '9') }

// IsIdentLikeOp: an operator spelled like an identifier.
func IsIdentLikeOp(s string) bool {
	rs := []rune(s)
	if len(rs) == 0 || !isIdentStart(rs[0]) {
		return false
	}
	for _, r := range rs[1:] {
		if !isIdentPart(r) {
			return false
		}
	}
	return true
}

// IsSymbolicOp: an operator made of operator characters only.
func IsSymbolicOp(s string) bool {
	if s == "" {
		return false
	}
	for _, r := range s {
		if !isOpChar(r) {
			return false
		}
	}
	return true
}

// RefLexer is the reference maximal-munch lexer for one operator set.
type RefLexer struct {
	ops []string // distinct operator spellings, longest first
}

func NewRefLexer(ops []string) *RefLexer {
	seen := map[string]bool{}
	var xs []string
	for _, o := range ops {
		if !seen[o] {
			seen[o] = true
			xs = append(xs, o)
		}
	}
	sort.SliceStable(xs, func(i, j int) bool { return len(xs[i]) > len(xs[j]) })
	return &RefLexer{ops: xs}
}

func hasPrefixAt(in []rune, i int, s string) bool {
	rs := []rune(s)
	if i+len(rs) > len(in) {
		return false
	}
	for k, r := range rs {
		if in[i+k] != r {
			return false
		}
	}
	return true
}

func digits(in []rune, i int) int {
	j := i
	for j < len(in) && in[j] >= '0' && in[j] <= '9' {
		j++
	}
	return j
}

// intPart: 0 | [1-9][0-9]*  ; returns end or -1
func intPart(in []rune, i int) int {
	if i >= len(in) {
		return -1
	}
	if in[i] == '0' {
		return i + 1
	}
	if in[i] >= '1' && in[i] <= '9' {
		return digits(in, i)
	}
	return -1
}

// frac: ('.' digits+)  ; returns end or -1
func frac(in []rune, i int) int {
	if i < len(in) && in[i] == '.' {
		if j := digits(in, i+1); j > i+1 {
			return j
		}
	}
	return -1
}

// expo: [eE][-+]?digits+ ; returns end or -1
func expo(in []rune, i int) int {
	if i < len(in) && (in[i] == 'e' || in[i] == 'E') {
		j := i + 1
		if j < len(in) && (in[j] == '-' || in[j] == '+') {
			j++
		}
		if k := digits(in, j); k > j {
			return k
		}
	}
	return -1
}

func radix(in []rune, i int, marker rune, first, rest func(rune) bool) int {
	if i+2 < len(in)+0 && in[i] == '0' && in[i+1] == marker {
		j := i + 2
		if j < len(in) && in[j] == '0' {
			return j + 1
		}
		if j < len(in) && first(in[j]) {
			j++
			for j < len(in) && rest(in[j]) {
				j++
			}
			return j
		}
	}
	return -1
}

// numberAt returns the end of the numeric token starting at i, or -1. The six
// documented forms are tried in their documented priority.
func numberAt(in []rune, i int) int {
	ip := intPart(in, i)
	if ip < 0 {
		return -1
	}
	// form 1: int (frac)+ (expo)?
	if j := frac(in, ip); j > 0 {
		for {
			k := frac(in, j)
			if k < 0 {
				break
			}
			j = k
		}
		if k := expo(in, j); k > 0 {
			j = k
		}
		return j
	}
	// form 2: int (frac)? (expo)+   (no fraction here, else form 1 had matched)
	if j := expo(in, ip); j > 0 {
		for {
			k := expo(in, j)
			if k < 0 {
				break
			}
			j = k
		}
		return j
	}
	isHex := func(r rune) bool { return (r >= '0' && r <= '9') || (r >= 'a' && r <= 'f') || (r >= 'A' && r <= 'F') }
	if j := radix(in, i, 'b', func(r rune) bool { return r == '1' }, func(r rune) bool { return r == '0' || r == '1' }); j > 0 {
		return j
	}
	if j := radix(in, i, 'x', func(r rune) bool { return isHex(r) && r != '0' }, isHex); j > 0 {
		return j
	}
	if j := radix(in, i, 'o', func(r rune) bool { return r >= '1' && r <= '7' }, func(r rune) bool { return r >= '0' && r <= '7' }); j > 0 {
		return j
	}
	return ip
}

func stringAt(in []rune, i int) int {
	if in[i] != '"' {
		return -1
	}
	j := i + 1
	for j < len(in) {
		switch r := in[j]; {
		case r == '"':
			return j + 1
		case r == '\\':
			if j+1 >= len(in) {
				return -1
			}
			n := in[j+1]
			if strings.ContainsRune(`"\trnbf/`, n) {
				j += 2
				continue
			}
			if n == 'u' && j+5 < len(in)+0 {
				ok := true
				for k := 2; k <= 5; k++ {
					h := in[j+k]
					if !((h >= '0' && h <= '9') || (h >= 'a' && h <= 'f') || (h >= 'A' && h <= 'F')) {
						ok = false
					}
				}
				if ok {
					j += 6
					continue
				}
			}
			return -1
		default:
			j++
		}
	}
	return -1
}

func delimitedAt(in []rune, i int, open rune, stop string) int {
	if in[i] != open {
		return -1
	}
	for j := i + 1; j < len(in); j++ {
		if in[j] == open {
			return j + 1
		}
		if strings.ContainsRune(stop, in[j]) {
			return -1
		}
	}
	return -1
}

// LexError is the reference's syntax error.
type LexError struct{ At int }

func (e *LexError) Error() string { return fmt.Sprintf("no token matches at rune %d", e.At) }

func (l *RefLexer) Lex(src string) ([]Tok, error) {
	in := []rune(src)
	var out []Tok
	i, line, col := 0, 0, 0
	adv := func(n int) {
		for k := 0; k < n; k++ {
			if in[i] == '\n' {
				line++
				col = 0
			} else {
				col++
			}
			i++
		}
	}
	for {
		for i < len(in) && unicode.IsSpace(in[i]) {
			adv(1)
		}
		if i >= len(in) {
			return out, nil
		}
		kind, end := "", -1
		r := in[i]
		switch {
		case strings.ContainsRune(",()[]{}", r):
			kind, end = string(r), i+1
		case (r == '.' || r == '?') && (i+1 >= len(in) || !isOpChar(in[i+1])):
			kind, end = string(r), i+1
		}
		if end < 0 {
			// longest registered operator; identifier-like ones only as whole words
			for _, op := range l.ops {
				if !hasPrefixAt(in, i, op) {
					continue
				}
				e := i + len([]rune(op))
				if IsIdentLikeOp(op) && e < len(in) && isIdentPart(in[e]) {
					continue
				}
				kind, end = op, e
				break
			}
		}
		if end < 0 && r == ':' {
			kind, end = ":", i+1
		}
		if end < 0 {
			for _, kw := range []string{"true", "false"} {
				if hasPrefixAt(in, i, kw) {
					e := i + len(kw)
					if e >= len(in) || !isIdentPart(in[e]) {
						kind, end = kw, e
					}
				}
			}
		}
		if end < 0 {
			if e := numberAt(in, i); e > 0 {
				kind, end = "<num>", e
			}
		}
		if end < 0 && r == '"' {
			if e := stringAt(in, i); e > 0 {
				kind, end = "<str>", e
			}
		}
		if end < 0 && r == '`' {
			if e := delimitedAt(in, i, '`', ""); e > 0 {
				kind, end = "<str>", e
			}
		}
		if end < 0 && r == '\'' {
			if e := delimitedAt(in, i, '\'', "`\""); e > 0 {
				kind, end = "<time>", e
			}
		}
		if end < 0 && isIdentStart(r) {
			e := i + 1
			for e < len(in) && isIdentPart(in[e]) {
				e++
			}
			kind, end = "<sym>", e
		}
		if end < 0 {
			return nil, &LexError{i}
		}
		t := Tok{Kind: kind, Lexeme: string(in[i:end]), Idx: i, IdxEnd: end, Line: line, Col: col}
		adv(end - i)
		out = append(out, t)
	}
}
