package ref

import (
	"fmt"
	"strings"
)

type EK int

const (
	ENum EK = iota
	EStr
	EBool
	ETime
	EIdent
	EList
	EMap
	EObj
	ECall    // call of a named function: Name, Args, Form
	EDynCall // Args[0] is the callee expression, Args[1:] the arguments
	EMember  // Args[0].Name
	ESubscript
	EGroup // redundant parentheses around Args[0]
)

type Form int

const (
	FCall    Form = iota // f(a, b)
	FInfix               // a op b
	FPrefix              // op a
	FTernary             // c ? a : b   (Name == "if")
	FMethod              // a.f(b)
)

// E is a reference expression. Check annotates it (T, Res).
type E struct {
	K      EK
	Num    float64
	Text   string // literal source text for ENum / EStr / ETime
	Str    string
	Bool   bool
	TimeTs int64 // expected unix seconds of a time literal
	Name   string
	Args   []*E
	Keys   []*E     // EMap: keys (Args are the values)
	Fields []string // EObj: field names (Args are the values)
	Form   Form

	// annotations written by Check
	T   *Ty
	Res *Fun
}

func Num(text string, v float64) *E { return &E{K: ENum, Text: text, Num: v} }
func Bool(b bool) *E                { return &E{K: EBool, Bool: b} }
func Ident(n string) *E             { return &E{K: EIdent, Name: n} }
func List(xs ...*E) *E              { return &E{K: EList, Args: xs} }
func Map(ks, vs []*E) *E            { return &E{K: EMap, Keys: ks, Args: vs} }
func Obj(fs []string, vs []*E) *E   { return &E{K: EObj, Fields: fs, Args: vs} }
func Call(n string, a ...*E) *E     { return &E{K: ECall, Name: n, Args: a} }
func CallF(f Form, n string, a ...*E) *E {
	return &E{K: ECall, Name: n, Args: a, Form: f}
}
func DynCall(callee *E, a ...*E) *E { return &E{K: EDynCall, Args: append([]*E{callee}, a...)} }
func Member(o *E, f string) *E      { return &E{K: EMember, Name: f, Args: []*E{o}} }
func Subscript(x, i *E) *E          { return &E{K: ESubscript, Args: []*E{x, i}} }
func Group(x *E) *E                 { return &E{K: EGroup, Args: []*E{x}} }

// Str builds a string literal with a rendering the lexer accepts.
func Str(s string) *E { return &E{K: EStr, Str: s, Text: QuoteStr(s)} }

// RawStr builds a back-quoted literal; s must not contain '`' or '\r'.
func RawStr(s string) *E { return &E{K: EStr, Str: s, Text: "`" + s + "`"} }

func Time(text string, ts int64) *E { return &E{K: ETime, Text: "'" + text + "'", TimeTs: ts} }

// QuoteStr renders s as a double-quoted literal using only the escapes of the
// language's string token.
func QuoteStr(s string) string {
	var b strings.Builder
	b.WriteByte('"')
	for _, r := range s {
		switch r {
		case '"':
			b.WriteString(`\"`)
		case '\\':
			b.WriteString(`\\`)
		case '\n':
			b.WriteString(`\n`)
		case '\t':
			b.WriteString(`\t`)
		case '\r':
			b.WriteString(`\r`)
		case '\b':
			b.WriteString(`\b`)
		case '\f':
			b.WriteString(`\f`)
		default:
			if r < 0x20 || r == 0x7f {
				fmt.Fprintf(&b, `\u%04x`, r)
			} else {
				b.WriteRune(r)
			}
		}
	}
	b.WriteByte('"')
	return b.String()
}

// Clone deep-copies an expression without annotations.
func (e *E) Clone() *E {
	c := *e
	c.T, c.Res = nil, nil
	c.Args = cloneList(e.Args)
	c.Keys = cloneList(e.Keys)
	c.Fields = append([]string(nil), e.Fields...)
	return &c
}

func cloneList(xs []*E) []*E {
	if xs == nil {
		return nil
	}
	out := make([]*E, len(xs))
	for i, x := range xs {
		out[i] = x.Clone()
	}
	return out
}

// Size is the number of nodes.
func (e *E) Size() int {
	n := 1
	for _, a := range e.Args {
		n += a.Size()
	}
	for _, a := range e.Keys {
		n += a.Size()
	}
	return n
}

// Walk visits every node (parents first).
func (e *E) Walk(f func(*E)) {
	f(e)
	for i := range e.Args {
		if e.K == EMap {
			e.Keys[i].Walk(f)
		}
		e.Args[i].Walk(f)
	}
}

// ---- rendering with the built-in operator table ----

type opInfo struct {
	bp    float64
	assoc int // 0 left, 1 right, 2 none
}

const (
	bpCond   = 2
	bpPrefix = 10
	bpCall   = 12
	bpMember = 13
	bpAtom   = 100
)

var infixOps = map[string]opInfo{
	"||": {3, 0}, "&&": {4, 0},
	"==": {5, 2}, "!=": {5, 2},
	"<": {6, 2}, "<=": {6, 2}, ">": {6, 2}, ">=": {6, 2},
	"+": {7, 0}, "-": {7, 0},
	"*": {8, 0}, "/": {8, 0}, "%": {8, 0},
	"^":  {9, 1},
	"or": {3, 0}, "and": {4, 0},
}

var prefixOps = map[string]bool{"+": true, "-": true, "!": true, "not": true}

func IsInfixOp(n string) bool  { _, ok := infixOps[n]; return ok }
func IsPrefixOp(n string) bool { return prefixOps[n] }

// Render produces source text; sugar forms are honoured where legal and
// parentheses are inserted exactly where the built-in table requires them.
func Render(e *E) string {
	s, _ := render(e)
	return s
}

func paren(s string, bp, need float64, strict bool) string {
	if bp < need || (strict && bp == need) {
		return "(" + s + ")"
	}
	return s
}

func render(e *E) (string, float64) {
	switch e.K {
	case ENum, EStr, ETime:
		return e.Text, bpAtom
	case EBool:
		if e.Bool {
			return "true", bpAtom
		}
		return "false", bpAtom
	case EIdent:
		return e.Name, bpAtom
	case EList:
		xs := make([]string, len(e.Args))
		for i, a := range e.Args {
			xs[i], _ = render(a)
		}
		return "[" + strings.Join(xs, ", ") + "]", bpAtom
	case EMap:
		if len(e.Args) == 0 {
			return "[:]", bpAtom
		}
		xs := make([]string, len(e.Args))
		for i := range e.Args {
			k, kb := render(e.Keys[i])
			// a key containing a top-level ternary would swallow the ':'
			k = paren(k, kb, bpCond, true)
			v, _ := render(e.Args[i])
			xs[i] = k + ": " + v
		}
		return "[" + strings.Join(xs, ", ") + "]", bpAtom
	case EObj:
		xs := make([]string, len(e.Args))
		for i := range e.Args {
			v, _ := render(e.Args[i])
			xs[i] = e.Fields[i] + ": " + v
		}
		return "{" + strings.Join(xs, ", ") + "}", bpAtom
	case EGroup:
		s, _ := render(e.Args[0])
		return "(" + s + ")", bpAtom
	case EMember:
		o, ob := render(e.Args[0])
		if e.Args[0].K == ENum {
			o, ob = "("+o+")", bpAtom
		}
		return paren(o, ob, bpCall, false) + "." + e.Name, bpMember
	case ESubscript:
		o, ob := render(e.Args[0])
		i, _ := render(e.Args[1])
		return paren(o, ob, bpCall, false) + "[" + i + "]", bpMember
	case EDynCall:
		c, cb := render(e.Args[0])
		// a bare identifier or member callee would be taken as a function
		// name / method call: force the grouped form
		if e.Args[0].K == EIdent || e.Args[0].K == EMember {
			c, cb = "("+c+")", bpAtom
		}
		xs := make([]string, len(e.Args)-1)
		for i, a := range e.Args[1:] {
			xs[i], _ = render(a)
		}
		return paren(c, cb, bpCall, false) + "(" + strings.Join(xs, ", ") + ")", bpCall
	case ECall:
		switch e.Form {
		case FInfix:
			if op, ok := infixOps[e.Name]; ok && len(e.Args) == 2 {
				l, lb := render(e.Args[0])
				r, rb := render(e.Args[1])
				l = paren(l, lb, op.bp, op.assoc != 0)
				r = paren(r, rb, op.bp, op.assoc != 1)
				return l + " " + e.Name + " " + r, op.bp
			}
		case FPrefix:
			if prefixOps[e.Name] && len(e.Args) == 1 {
				x, xb := render(e.Args[0])
				x = paren(x, xb, bpPrefix, true)
				// "- -x" and "! !x": keep operator characters apart
				sep := ""
				if len(x) > 0 && strings.ContainsRune("+-!", rune(x[0])) || isIdentName(e.Name) {
					sep = " "
				}
				return e.Name + sep + x, bpPrefix
			}
		case FTernary:
			if e.Name == "if" && len(e.Args) == 3 {
				c, cb := render(e.Args[0])
				a, _ := render(e.Args[1])
				b, bb := render(e.Args[2])
				c = paren(c, cb, bpCond, true)
				b = paren(b, bb, bpCond, false)
				return c + " ? " + a + " : " + b, bpCond
			}
		case FMethod:
			if len(e.Args) >= 1 && isIdentName(e.Name) && !IsInfixOp(e.Name) && !IsPrefixOp(e.Name) {
				o, ob := render(e.Args[0])
				if e.Args[0].K == ENum {
					o, ob = "("+o+")", bpAtom
				}
				xs := make([]string, len(e.Args)-1)
				for i, a := range e.Args[1:] {
					xs[i], _ = render(a)
				}
				return paren(o, ob, bpCall, false) + "." + e.Name + "(" + strings.Join(xs, ", ") + ")", bpCall
			}
		}
		// plain call form; operator-named functions cannot be written as
		// f(...) in source, fall back to the operator form
		if !isIdentName(e.Name) || IsInfixOp(e.Name) || IsPrefixOp(e.Name) {
			c := *e
			if len(e.Args) == 2 && IsInfixOp(e.Name) {
				c.Form = FInfix
				return render(&c)
			}
			if len(e.Args) == 1 && IsPrefixOp(e.Name) {
				c.Form = FPrefix
				return render(&c)
			}
		}
		xs := make([]string, len(e.Args))
		for i, a := range e.Args {
			xs[i], _ = render(a)
		}
		return e.Name + "(" + strings.Join(xs, ", ") + ")", bpCall
	}
	return "?", bpAtom
}

func isIdentName(s string) bool {
	if s == "" {
		return false
	}
	for i, r := range s {
		if r == '_' || (r >= 'a' && r <= 'z') || (r >= 'A' && r <= 'Z') || r > 127 {
			continue
		}
		if i > 0 && r >= '0' && r <= '9' {
			continue
		}
		return false
	}
	return true
}

// Renderable reports whether every call can be written in source text
// (operator-named functions only in their operator form and arity).
func Renderable(e *E) bool {
	ok := true
	e.Walk(func(x *E) {
		if x.K == ECall && (!isIdentName(x.Name) || IsInfixOp(x.Name) || IsPrefixOp(x.Name)) {
			if !(len(x.Args) == 2 && IsInfixOp(x.Name)) && !(len(x.Args) == 1 && IsPrefixOp(x.Name)) {
				ok = false
			}
		}
		if x.K == EObj {
			for _, f := range x.Fields {
				if !isIdentName(f) {
					ok = false
				}
			}
		}
	})
	return ok
}
