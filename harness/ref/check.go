package ref

import "fmt"

var reservedWords = map[string]bool{}

func init() {
	for _, w := range []string{
		"byte", "int", "float", "double", "string", "bool", "boolean", "ch", "void",
		"type", "var", "def", "define", "let", "rec", "mut", "fun", "fn", "function",
		"record", "struct", "map", "list", "object", "class", "trait", "interface",
		"sealed", "extends", "prefix", "infixl", "infixr", "infixn",
		"for", "do", "while", "switch", "cast", "range", "match", "select",
		"break", "continue", "return", "try", "catch", "throw", "finally",
		"import", "as", "module", "package", "namespace", "assert", "debugger",
	} {
		reservedWords[w] = true
	}
}

func Reserved(n string) bool { return reservedWords[n] }

// TypeError is a compile-time rejection predicted by the reference checker.
type TypeError struct{ Msg string }

func (e *TypeError) Error() string { return e.Msg }

func terr(format string, a ...interface{}) { panic(&TypeError{fmt.Sprintf(format, a...)}) }

// Check is the reference type checker. It annotates e (T, Res) and returns the
// type, or a *TypeError.
func Check(e *E, env map[string]*Ty, ft *FunTable) (t *Ty, err error) {
	defer func() {
		if r := recover(); r != nil {
			if te, ok := r.(*TypeError); ok {
				t, err = nil, te
				return
			}
			panic(r)
		}
	}()
	return check(e, env, ft), nil
}

func check(e *E, env map[string]*Ty, ft *FunTable) *Ty {
	t := check0(e, env, ft)
	e.T = t
	return t
}

func check0(e *E, env map[string]*Ty, ft *FunTable) *Ty {
	switch e.K {
	case ENum:
		return TNum
	case EStr:
		return TStr
	case EBool:
		return TBool
	case ETime:
		return TTime
	case EGroup:
		return check(e.Args[0], env, ft)
	case EIdent:
		if Reserved(e.Name) {
			terr("%s reserved", e.Name)
		}
		t, ok := env[e.Name]
		if !ok {
			terr("undefined %s", e.Name)
		}
		return t
	case EList:
		if len(e.Args) == 0 {
			return TList(TBot)
		}
		el := check(e.Args[0], env, ft)
		for _, a := range e.Args[1:] {
			if t := check(a, env, ft); !Eq(el, t) {
				terr("list element %s vs %s", el.Canon(), t.Canon())
			}
		}
		return TList(el)
	case EMap:
		if len(e.Args) == 0 {
			return TMap(TBot, TBot)
		}
		kt := check(e.Keys[0], env, ft)
		if !kt.IsPrim() {
			terr("map key type %s", kt.Canon())
		}
		vt := check(e.Args[0], env, ft)
		for i := 1; i < len(e.Args); i++ {
			if t := check(e.Keys[i], env, ft); !Eq(kt, t) {
				terr("map key %s vs %s", kt.Canon(), t.Canon())
			}
			if t := check(e.Args[i], env, ft); !Eq(vt, t) {
				terr("map value %s vs %s", vt.Canon(), t.Canon())
			}
		}
		return TMap(kt, vt)
	case EObj:
		fs := make([]Fld, len(e.Args))
		for i, a := range e.Args {
			fs[i] = Fld{e.Fields[i], check(a, env, ft)}
		}
		seen := map[string]bool{}
		for _, f := range fs {
			if seen[f.Name] {
				terr("duplicated field %s", f.Name)
			}
			seen[f.Name] = true
		}
		return &Ty{K: KObj, Fs: fs}
	case ECall:
		args := make([]*Ty, len(e.Args))
		for i, a := range e.Args {
			args[i] = check(a, env, ft)
		}
		f, r := ft.Resolve(e.Name, args)
		if f == nil {
			terr("no overload of %s for %d args", e.Name, len(args))
		}
		e.Res = f
		return r
	case EDynCall:
		// arguments are checked before the callee
		args := make([]*Ty, len(e.Args)-1)
		for i, a := range e.Args[1:] {
			args[i] = check(a, env, ft)
		}
		ct := check(e.Args[0], env, ft)
		if ct.K != KFun {
			terr("non callable %s", ct.Canon())
		}
		if len(ct.Params) != len(args) {
			terr("arity")
		}
		m := map[string]*Ty{}
		for i := range args {
			if !Match(ct.Params[i], args[i], m) {
				terr("dyn arg %d: %s vs %s", i, ct.Params[i].Canon(), args[i].Canon())
			}
		}
		r := Subst(ct.Ret, m)
		if !r.Ground() {
			terr("dyn result not ground")
		}
		return r
	case ESubscript:
		ct := check(e.Args[0], env, ft)
		switch ct.K {
		case KList:
			if it := check(e.Args[1], env, ft); !Eq(it, TNum) {
				terr("list index %s", it.Canon())
			}
			return ct.El
		case KMap:
			if it := check(e.Args[1], env, ft); !Eq(it, ct.Key) {
				terr("map key %s vs %s", it.Canon(), ct.Key.Canon())
			}
			return ct.Val
		}
		terr("subscript on %s", ct.Canon())
	case EMember:
		ot := check(e.Args[0], env, ft)
		if ot.K != KObj {
			terr("member on %s", ot.Canon())
		}
		ft2 := ot.Field(e.Name)
		if ft2 == nil {
			terr("no field %s in %s", e.Name, ot.Canon())
		}
		return ft2
	}
	terr("unknown node")
	return nil
}
