package ref

import (
	"fmt"
	"strconv"
	"strings"
)

// SQLTok is a token of the emitted WHERE dialect.
type SQLTok struct {
	Kind string // id str num kw op ( ) ,
	Text string // identifier name, decoded string, number text, keyword, operator
}

// SQLLex tokenises the way a MySQL-style reader in its default mode does:
// backtick identifiers, double-quoted strings in which a backslash escapes
// the next character whatever it is.
func SQLLex(s string) ([]SQLTok, error) {
	var out []SQLTok
	b := []byte(s)
	i := 0
	for i < len(b) {
		ch := b[i]
		switch {
		case ch == ' ':
			i++
		case ch == '(' || ch == ')' || ch == ',':
			out = append(out, SQLTok{string(ch), string(ch)})
			i++
		case ch == '`':
			j := i + 1
			for j < len(b) && b[j] != '`' {
				j++
			}
			if j >= len(b) {
				return nil, fmt.Errorf("unterminated identifier at %d", i)
			}
			out = append(out, SQLTok{"id", string(b[i+1 : j])})
			i = j + 1
		case ch == '"':
			var sb []byte
			j := i + 1
			closed := false
			for j < len(b) {
				if b[j] == '\\' {
					if j+1 >= len(b) {
						return nil, fmt.Errorf("backslash at end of input")
					}
					switch b[j+1] {
					case 'n':
						sb = append(sb, '\n')
					case 't':
						sb = append(sb, '\t')
					case 'r':
						sb = append(sb, '\r')
					case 'b':
						sb = append(sb, '\b')
					case '0':
						sb = append(sb, 0)
					case 'Z':
						sb = append(sb, 26)
					default:
						sb = append(sb, b[j+1])
					}
					j += 2
					continue
				}
				if b[j] == '"' {
					if j+1 < len(b) && b[j+1] == '"' { // doubled quote
						sb = append(sb, '"')
						j += 2
						continue
					}
					closed = true
					break
				}
				sb = append(sb, b[j])
				j++
			}
			if !closed {
				return nil, fmt.Errorf("unterminated string starting at %d", i)
			}
			out = append(out, SQLTok{"str", string(sb)})
			i = j + 1
		case ch == '\'':
			return nil, fmt.Errorf("single quote outside a string literal at %d", i)
		case ch == '-' && i+1 < len(b) && (b[i+1] >= '0' && b[i+1] <= '9'), ch >= '0' && ch <= '9':
			j := i + 1
			for j < len(b) && (b[j] >= '0' && b[j] <= '9' || b[j] == '.') {
				j++
			}
			out = append(out, SQLTok{"num", string(b[i:j])})
			i = j
		case strings.ContainsRune("=<>!", rune(ch)):
			j := i + 1
			for j < len(b) && strings.ContainsRune("=<>", rune(b[j])) {
				j++
			}
			out = append(out, SQLTok{"op", string(b[i:j])})
			i = j
		case ch == '_' || ch >= 'a' && ch <= 'z' || ch >= 'A' && ch <= 'Z':
			j := i + 1
			for j < len(b) && (b[j] == '_' || b[j] >= 'a' && b[j] <= 'z' || b[j] >= 'A' && b[j] <= 'Z' || b[j] >= '0' && b[j] <= '9') {
				j++
			}
			out = append(out, SQLTok{"kw", string(b[i:j])})
			i = j
		default:
			return nil, fmt.Errorf("unexpected byte %q at %d (outside any literal)", ch, i)
		}
	}
	return out, nil
}

// SQLNode is the boolean structure read back from a WHERE text.
type SQLNode struct {
	Op   string // and or not cond
	Kids []*SQLNode
	Cond string       // normalised condition for Op == cond
	Ops  []SQLOperand // operands of the condition
	Rel  string
}

type SQLOperand struct {
	Kind string // col str num time list
	Text string
	List []SQLOperand
}

func (o SQLOperand) String() string {
	if o.Kind == "list" {
		xs := make([]string, len(o.List))
		for i, x := range o.List {
			xs[i] = x.String()
		}
		return "(" + strings.Join(xs, ",") + ")"
	}
	return o.Kind + ":" + strconv.Quote(o.Text)
}

type sqlParser struct {
	t []SQLTok
	i int
}

func (p *sqlParser) peek() SQLTok {
	if p.i < len(p.t) {
		return p.t[p.i]
	}
	return SQLTok{"eof", ""}
}
func (p *sqlParser) next() SQLTok { t := p.peek(); p.i++; return t }
func (p *sqlParser) isKw(k string) bool {
	t := p.peek()
	return t.Kind == "kw" && t.Text == k
}

// SQLParse reads a WHERE text with standard precedence: comparison, then
// NOT, then AND, then OR.
func SQLParse(s string) (n *SQLNode, err error) {
	toks, err := SQLLex(s)
	if err != nil {
		return nil, err
	}
	p := &sqlParser{t: toks}
	defer func() {
		if r := recover(); r != nil {
			n, err = nil, fmt.Errorf("%v", r)
		}
	}()
	n = p.or()
	if p.peek().Kind != "eof" {
		panic(fmt.Sprintf("trailing token %v", p.peek()))
	}
	return n, nil
}

func (p *sqlParser) or() *SQLNode {
	l := p.and()
	for p.isKw("OR") {
		p.next()
		r := p.and()
		l = &SQLNode{Op: "or", Kids: []*SQLNode{l, r}}
	}
	return l
}

func (p *sqlParser) and() *SQLNode {
	l := p.not()
	for p.isKw("AND") {
		p.next()
		r := p.not()
		l = &SQLNode{Op: "and", Kids: []*SQLNode{l, r}}
	}
	return l
}

func (p *sqlParser) not() *SQLNode {
	if p.isKw("NOT") {
		p.next()
		return &SQLNode{Op: "not", Kids: []*SQLNode{p.not()}}
	}
	return p.pred()
}

func (p *sqlParser) operand() SQLOperand {
	t := p.next()
	switch t.Kind {
	case "id":
		return SQLOperand{Kind: "col", Text: t.Text}
	case "str":
		return SQLOperand{Kind: "str", Text: t.Text}
	case "num":
		return SQLOperand{Kind: "num", Text: t.Text}
	case "kw":
		if t.Text == "from_unixtime" {
			if p.next().Kind != "(" {
				panic("from_unixtime without (")
			}
			n := p.next()
			if n.Kind != "num" {
				panic("from_unixtime argument is not a number")
			}
			if p.next().Kind != ")" {
				panic("from_unixtime without )")
			}
			return SQLOperand{Kind: "time", Text: n.Text}
		}
	case "(":
		var xs []SQLOperand
		if p.peek().Kind != ")" {
			for {
				xs = append(xs, p.operand())
				if p.peek().Kind != "," {
					break
				}
				p.next()
			}
		}
		if p.next().Kind != ")" {
			panic("list without )")
		}
		return SQLOperand{Kind: "list", List: xs}
	}
	panic(fmt.Sprintf("operand expected, got %v", t))
}

func (p *sqlParser) pred() *SQLNode {
	if p.peek().Kind == "(" {
		p.next()
		n := p.or()
		if p.next().Kind != ")" {
			panic("missing )")
		}
		return n
	}
	l := p.operand()
	t := p.next()
	switch {
	case t.Kind == "op":
		r := p.operand()
		return &SQLNode{Op: "cond", Rel: t.Text, Ops: []SQLOperand{l, r}}
	case t.Kind == "kw" && t.Text == "IN":
		r := p.operand()
		if r.Kind != "list" {
			panic("IN without a list")
		}
		return &SQLNode{Op: "cond", Rel: "IN", Ops: []SQLOperand{l, r}}
	case t.Kind == "kw" && t.Text == "LIKE":
		r := p.operand()
		return &SQLNode{Op: "cond", Rel: "LIKE", Ops: []SQLOperand{l, r}}
	case t.Kind == "kw" && t.Text == "BETWEEN":
		a := p.operand()
		if !p.isKw("AND") {
			panic("BETWEEN without AND")
		}
		p.next()
		b := p.operand()
		return &SQLNode{Op: "cond", Rel: "BETWEEN", Ops: []SQLOperand{l, a, b}}
	case t.Kind == "kw" && t.Text == "IS":
		if !p.isKw("NULL") {
			panic("IS without NULL")
		}
		p.next()
		return &SQLNode{Op: "cond", Rel: "ISNULL", Ops: []SQLOperand{l}}
	}
	panic(fmt.Sprintf("predicate expected after operand, got %v", t))
}

// Flat renders the boolean structure with AND / OR chains flattened.
func (n *SQLNode) Flat() string {
	switch n.Op {
	case "cond":
		xs := make([]string, len(n.Ops))
		for i, o := range n.Ops {
			xs[i] = o.String()
		}
		return "[" + n.Rel + " " + strings.Join(xs, " ") + "]"
	case "not":
		return "not(" + n.Kids[0].Flat() + ")"
	}
	var parts []string
	var collect func(k *SQLNode)
	collect = func(k *SQLNode) {
		if k.Op == n.Op {
			for _, c := range k.Kids {
				collect(c)
			}
			return
		}
		parts = append(parts, k.Flat())
	}
	collect(n)
	return n.Op + "(" + strings.Join(parts, ", ") + ")"
}
