package ref

import "strconv"

func traced(name string, body func(t *Ty, a []Arg) *V) func(*Evaluator, *Ty, []Arg) *V {
	return func(ev *Evaluator, t *Ty, a []Arg) *V {
		s := ""
		for i, x := range a {
			if i > 0 {
				s += ", "
			}
			if x.Thunk != nil {
				s += "<thunk>"
			} else {
				s += Show(x.V) + ":" + x.V.T.Canon()
			}
		}
		ev.Emit(TraceEntry{name, s})
		// thunks forced by the body run nested evaluations that append to
		// the same evaluator (reference side) or to the observed trace
		// (real side, through the nested host calls)
		return body(t, a)
	}
}

// UserFuns are the harness-registered host functions: strict and lazy,
// monomorphic and polymorphic, with composite parameters. The same Go bodies
// are registered in the real engine by the bridge.
func UserFuns() []*Fun {
	a, b := TVar("a"), TVar("b")
	ln := TList(TNum)
	oWH := TObj(F("w", TNum), F("h", TNum))
	oAB := TObj(F("a", TNum), F("b", TStr))
	mk := func(name string, ps []*Ty, r *Ty, lazy bool, body func(t *Ty, a []Arg) *V) *Fun {
		return &Fun{Name: name, Params: ps, Ret: r, Lazy: lazy, User: name, Impl: traced(name, body)}
	}
	return []*Fun{
		// tr :: str -> a -> a   (strict; records tag and value)
		mk("tr", []*Ty{TStr, a}, a, false, func(_ *Ty, x []Arg) *V { return x[1].V }),
		// fst :: a -> b -> a
		mk("fst", []*Ty{a, b}, a, false, func(_ *Ty, x []Arg) *V { return x[0].V }),
		// lzIf :: bool -> a -> a -> a   (lazy)
		mk("lzIf", []*Ty{TBool, a, a}, a, true, func(_ *Ty, x []Arg) *V {
			if x[0].Force().B {
				return x[1].Force()
			}
			return x[2].Force()
		}),
		// lzAnd :: bool -> bool -> bool (lazy)
		mk("lzAnd", []*Ty{TBool, TBool}, TBool, true, func(_ *Ty, x []Arg) *V {
			if !x[0].Force().B {
				return VBool(false)
			}
			return VBool(x[1].Force().B)
		}),
		// pick3 :: num -> a -> a -> a -> a  (lazy; selects by the first operand)
		mk("pick3", []*Ty{TNum, a, a, a}, a, true, func(_ *Ty, x []Arg) *V {
			n := x[0].Force().N
			switch {
			case n < 1:
				return x[1].Force()
			case n < 2:
				return x[2].Force()
			}
			return x[3].Force()
		}),
		// rev2 :: a -> a -> list[a]  (lazy; forces the second operand first)
		mk("rev2", []*Ty{a, a}, TList(a), true, func(t *Ty, x []Arg) *V {
			second := x[1].Force()
			first := x[0].Force()
			return &V{T: TList(first.T), L: []*V{first, second}}
		}),
		// cat :: list[num] -> list[num] -> list[num]  (mono, shared composite parameter type)
		mk("cat", []*Ty{ln, ln}, ln, false, func(_ *Ty, x []Arg) *V {
			out := &V{T: ln}
			out.L = append(out.L, x[0].V.L...)
			out.L = append(out.L, x[1].V.L...)
			return out
		}),
		// area :: {w:num,h:num} -> num  (mono, object parameter)
		mk("area", []*Ty{oWH}, TNum, false, func(_ *Ty, x []Arg) *V {
			return VNum(x[0].V.FieldVal("w").N * x[0].V.FieldVal("h").N)
		}),
		// label :: {a:num,b:str} -> str
		mk("label", []*Ty{oAB}, TStr, false, func(_ *Ty, x []Arg) *V {
			return VStr(x[0].V.FieldVal("b").S + "#" + FmtNum(x[0].V.FieldVal("a").N))
		}),
		// ov: an overload set whose resolution depends on the rule "mono
		// first, then polymorphic in registration order"
		mk("ov", []*Ty{TNum}, TStr, false, func(_ *Ty, x []Arg) *V { return VStr("ov/num") }),
		mk("ov", []*Ty{TList(a)}, TStr, false, func(_ *Ty, x []Arg) *V { return VStr("ov/list:" + strconv.Itoa(len(x[0].V.L))) }),
		mk("ov", []*Ty{a}, TStr, false, func(_ *Ty, x []Arg) *V { return VStr("ov/any") }),
		mk("ov", []*Ty{TStr}, TStr, false, func(_ *Ty, x []Arg) *V { return VStr("ov/str") }),
		// a host function registered under the exact signature of a built-in
		// (replaces it), and a user overload of the built-in operator '!'
		mk("round", []*Ty{TNum}, TNum, false, func(_ *Ty, x []Arg) *V { return VNum(x[0].V.N*10 + 1) }),
		mk("!", []*Ty{TStr}, TBool, false, func(_ *Ty, x []Arg) *V { return VBool(x[0].V.S == "") }),
		// wrap :: a -> list[a] ; pair :: a -> a -> list[a]
		mk("wrap", []*Ty{a}, TList(a), false, func(_ *Ty, x []Arg) *V { return &V{T: TList(x[0].V.T), L: []*V{x[0].V}} }),
		mk("pair", []*Ty{a, a}, TList(a), false, func(_ *Ty, x []Arg) *V {
			return &V{T: TList(x[0].V.T), L: []*V{x[0].V, x[1].V}}
		}),
		// overload sets of one name and arity whose members differ in evaluation
		// strategy: sel :: bool -> a -> a (lazy) | list[a] -> a -> a (strict);
		// sel2 :: num -> a -> a (strict) | list[a] -> a -> a (lazy, forces the second operand only)
		mk("sel", []*Ty{TBool, a}, a, true, func(_ *Ty, x []Arg) *V {
			x[0].Force()
			return x[1].Force()
		}),
		mk("sel", []*Ty{TList(a), a}, a, false, func(_ *Ty, x []Arg) *V { return x[1].V }),
		mk("sel2", []*Ty{TNum, a}, a, false, func(_ *Ty, x []Arg) *V { return x[1].V }),
		mk("sel2", []*Ty{TList(a), a}, a, true, func(_ *Ty, x []Arg) *V { return x[1].Force() }),
	}
}

// NotOverride is a host function registered under the exact signature of the
// built-in '!' on bool (replacing it): same result, but the call is observable.
func NotOverride() *Fun {
	return &Fun{Name: "!", Params: []*Ty{TBool}, Ret: TBool, User: "!bool",
		Impl: traced("!", func(_ *Ty, x []Arg) *V { return VBool(!x[0].V.B) })}
}

// Push mutates its first argument in place (a host function is free to do
// that with a value the engine handed to it) and returns it.
func Push() *Fun {
	a := TVar("a")
	return &Fun{Name: "push", Params: []*Ty{TList(a), a}, Ret: TList(a), User: "push",
		Impl: traced("push", func(_ *Ty, x []Arg) *V {
			x[0].V.L = append(x[0].V.L, x[1].V)
			return x[0].V
		})}
}

// Twice forces its thunk twice (profile-only: debug mode excludes it).
func Twice() *Fun {
	a := TVar("a")
	return &Fun{Name: "twice", Params: []*Ty{a}, Ret: TList(a), Lazy: true, User: "twice",
		Impl: traced("twice", func(_ *Ty, x []Arg) *V {
			p := x[0].Force()
			q := x[0].Force()
			return &V{T: TList(p.T), L: []*V{p, q}}
		})}
}

// Many builds a strict mono function with n num parameters (argument-count
// limits of the VM encoding).
func Many(n int) *Fun {
	ps := make([]*Ty, n)
	for i := range ps {
		ps[i] = TNum
	}
	return &Fun{Name: "many", Params: ps, Ret: TNum, User: "many",
		Impl: func(_ *Evaluator, _ *Ty, x []Arg) *V {
			s := 0.0
			for i, a := range x {
				s += a.V.N * float64(i%7+1)
			}
			return VNum(s)
		}}
}
