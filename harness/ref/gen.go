package ref

import (
	"fmt"
	"math"
	"math/rand"
	"strconv"
	"strings"
	"time"
)

// NumLits are literal spellings covering every numeric token form and the
// boundary values of the number semantics.
var NumLits = []string{
	"0", "1", "2", "3", "4", "5", "7", "10", "42", "100", "255", "256", "1000",
	"0.5", "1.5", "2.5", "0.1", "0.2", "0.3", "3.75", "0.000000001", "0.0000000005", "0.000000002",
	"1e-9", "1e-10", "2e-9", "1e3", "1E3", "2.5e-3", "1.5E+2", "1e0",
	"0x1F", "0xff", "0x0", "0b101", "0b0", "0o17", "0o0",
	"9007199254740992", "9007199254740993", "9223372036854775807", "9223372036854775808",
	"1e19", "1e20", "1e30", "1e308", "5e-324", "4294967296", "1000000000",
	"1.000000001", "1.0000000005", "1.000000002", "0.999999999", "0.9999999995",
}

// LitValue is the documented value of a numeric literal spelling.
func LitValue(s string) float64 {
	if f, err := strconv.ParseFloat(s, 64); err == nil {
		return f
	}
	var n int64
	var err error
	switch {
	case strings.HasPrefix(s, "0x"):
		n, err = strconv.ParseInt(s[2:], 16, 64)
	case strings.HasPrefix(s, "0b"):
		n, err = strconv.ParseInt(s[2:], 2, 64)
	case strings.HasPrefix(s, "0o"):
		n, err = strconv.ParseInt(s[2:], 8, 64)
	default:
		err = fmt.Errorf("bad literal")
	}
	if err != nil {
		panic("reference: bad numeric literal " + s)
	}
	return float64(n)
}

var StrPool = []string{
	"", "a", "b", "abc", "hello world", "晓", "晓明", "😀", "é", "q\"uote", "back\\slash",
	"line\nbreak", "tab\there", "'", "%_", "0", "1", "true", "(", "[a-z]+", "^a.c$", "a|b", "é",
	"x y", " lead", "trail ", "ß", "İ", "​",
	"0123456789abcdef0123456789abcdef", "a long string of exactly sixty-four bytes, padded with xs: xxxxxxxxxx",
	"晓明晓明晓明晓明晓明晓明晓明晓明晓明晓明晓明晓明晓明晓明晓明晓明晓明晓明晓明晓明晓明晓明",
}

// TimeForm is an absolute time spelling with its parts.
type TimeForm struct {
	Text string
}

var TimePool = []string{
	"1970-01-01", "1970-01-02", "2000-02-29", "2021-12-31", "2022-01-01", "2038-01-19",
	"2022-06-15 12:30:45", "1999-12-31 23:59:59", "2024-02-29 00:00:00", "2022-06-15T12:30:45",
	"2022-06-15T12:30:45Z", "2000-01-01T00:00:00Z", "2022-06-15 12:30:45 +0800", "2022-06-15 12:30:45 -0500",
	"2022-06-15T12:30:45+05:30", "@0", "@1", "@86400", "@1700000000", "@-1",
}

// GenOpt tunes the program generator.
type GenOpt struct {
	MaxDepth   int
	PFail      float64 // probability of a deliberately failing partial operation
	PSugar     float64 // probability of sugared forms
	PBoundary  float64 // probability of boundary indices / keys
	PGroup     float64
	UserFuns   bool
	AllowPrint bool
	NoTime     bool
}

type Gen struct {
	R    *rand.Rand
	EnvT map[string]*Ty
	Vars []string
	FT   *FunTable
	Opt  GenOpt
	Loc  *time.Location
	seq  int
}

func (g *Gen) pick(n int) int   { return g.R.Intn(n) }
func (g *Gen) p(x float64) bool { return g.R.Float64() < x }

// Type draws a random variable-free type.
func (g *Gen) Type(d int) *Ty {
	if d <= 0 {
		return g.Prim()
	}
	switch g.pick(10) {
	case 0, 1, 2, 3:
		return g.Prim()
	case 4, 5:
		return TList(g.Type(d - 1))
	case 6:
		return TMap(g.Prim(), g.Type(d-1))
	default:
		n := 1 + g.pick(3)
		if g.p(0.05) {
			n = 5 + g.pick(4)
		}
		names := []string{"a", "b", "c", "d", "名", "x1", "w", "h", "ab", "bc"}
		g.R.Shuffle(len(names), func(i, j int) { names[i], names[j] = names[j], names[i] })
		fs := make([]Fld, n)
		for i := range fs {
			fs[i] = Fld{names[i], g.Type(d - 1)}
		}
		return &Ty{K: KObj, Fs: fs}
	}
}

func (g *Gen) Prim() *Ty {
	n := 4
	if g.Opt.NoTime {
		n = 3
	}
	return []*Ty{TNum, TStr, TBool, TTime}[g.pick(n)]
}

// PermuteObj returns an equal object type with its fields in another order
// (recursively).
func (g *Gen) Permute(t *Ty) *Ty {
	switch t.K {
	case KList:
		return TList(g.Permute(t.El))
	case KMaybe:
		return TMaybe(g.Permute(t.El))
	case KMap:
		return TMap(t.Key, g.Permute(t.Val))
	case KObj:
		fs := make([]Fld, len(t.Fs))
		for i, f := range t.Fs {
			fs[i] = Fld{f.Name, g.Permute(f.T)}
		}
		g.R.Shuffle(len(fs), func(i, j int) { fs[i], fs[j] = fs[j], fs[i] })
		return &Ty{K: KObj, Fs: fs}
	}
	return t
}

var numVals = []float64{0, 1, -1, 2, 3, 0.5, -0.5, 1.5, 10, 42, 255, 256, 1e-9, 1e-10, 1 + 1e-9, 1 - 1e-9,
	9007199254740992, 9007199254740993, 9223372036854775807, -9223372036854775808, 1e19, 1e20, 1e308, 5e-324,
	math.Copysign(0, -1), 100, 1000, 7, -7, 3.75}

func (g *Gen) NumVal() float64 {
	if g.p(0.05) {
		// NaN is left to the dedicated pools: a container holding NaN equals
		// itself by identity but not element-wise (recorded finding D26)
		return []float64{math.Inf(1), math.Inf(-1)}[g.pick(2)]
	}
	if g.p(0.2) {
		return float64(g.pick(2000)-1000) / float64(1+g.pick(8))
	}
	return numVals[g.pick(len(numVals))]
}

var timeSecs = []int64{0, 1, 86400, 946684800, 1655296245, 1700000000, 2147483647, 4102444800, -1, -86400}

// Value draws a random value of type t. Objects inside lists may carry their
// own (permuted) field order.
func (g *Gen) Value(t *Ty, d int) *V {
	switch t.K {
	case KNum:
		return VNum(g.NumVal())
	case KStr:
		if g.p(0.05) {
			return VStr("\xff\xfe bad utf8")
		}
		return VStr(StrPool[g.pick(len(StrPool))])
	case KBool:
		return VBool(g.p(0.5))
	case KTime:
		ns := int64(0)
		if g.p(0.2) {
			ns = 500000000
		}
		return VTime(time.Unix(timeSecs[g.pick(len(timeSecs))], ns))
	case KBot:
		panic("reference: no value of bottom type")
	case KList:
		n := g.pick(4)
		if d <= 0 {
			n = g.pick(2)
		}
		if g.p(0.06) && (t.El.IsPrim() || d > 0) {
			n = g.bigSize()
		}
		if t.El.K == KBot {
			n = 0
		}
		out := &V{T: t}
		for i := 0; i < n; i++ {
			et := t.El
			if g.p(0.5) {
				et = g.Permute(et)
			}
			out.L = append(out.L, g.Value(et, d-1))
		}
		return out
	case KMap:
		n := g.pick(4)
		if g.p(0.05) && t.Key.K == KNum {
			n = g.bigSize()
		}
		if t.Key.K == KBot || t.Val.K == KBot {
			n = 0
		}
		out := &V{T: t}
		for i := 0; i < n; i++ {
			vt := t.Val
			if g.p(0.5) {
				vt = g.Permute(vt)
			}
			k := g.Value(t.Key, 0)
			if n > 4 && t.Key.K == KNum {
				k = VNum(float64(i)) // many distinct keys
			}
			out.MapPut(k, g.Value(vt, d-1))
		}
		return out
	case KObj:
		out := &V{T: t}
		for _, f := range t.Fs {
			ft := f.T
			if g.p(0.3) {
				ft = g.Permute(ft)
			}
			out.O = append(out.O, g.Value(ft, d-1))
		}
		return out
	case KMaybe:
		if g.p(0.4) {
			return VNothing(t.El)
		}
		return VJust(t.El, g.Value(t.El, d-1))
	}
	panic("reference: cannot generate value of " + t.Canon())
}

// bigSize draws a collection size around the thresholds at which "fast
// paths" typically switch (8, 16, 32, 64, 128, 256, 1024).
func (g *Gen) bigSize() int {
	base := []int{8, 16, 32, 64, 100, 128, 256, 1024}[g.pick(8)]
	return base - 1 + g.pick(3)
}

// StdEnv draws an environment with a fixed vocabulary of names and random
// contents; every type the generator likes to use is present.
func (g *Gen) StdEnv() (names []string, ts map[string]*Ty, vs map[string]*V) {
	ts, vs = map[string]*Ty{}, map[string]*V{}
	put := func(n string, t *Ty) {
		names = append(names, n)
		// the value may have an equal type with a different field layout
		vt := t
		if g.p(0.5) {
			vt = g.Permute(t)
		}
		ts[n] = t
		vs[n] = g.Value(vt, 2)
	}
	oAB := TObj(F("a", TNum), F("b", TStr))
	oWH := TObj(F("w", TNum), F("h", TNum))
	put("n", TNum)
	put("k", TNum)
	put("s", TStr)
	put("s2", TStr)
	put("b", TBool)
	if !g.Opt.NoTime {
		put("t", TTime)
		put("t2", TTime)
	}
	put("xs", TList(TNum))
	put("ys", TList(TNum))
	put("ss", TList(TStr))
	put("m", TMap(TStr, TNum))
	put("mn", TMap(TNum, TStr))
	put("o", oAB)
	put("r", oWH)
	put("os", TList(oAB))
	put("mo", TMap(TStr, oAB))
	put("oo", TObj(F("p", oAB), F("q", TList(oWH)), F("c", TBool)))
	put("xss", TList(TList(TNum)))
	put("名", TNum)
	// strict function values for dynamic callees
	n2n := TFun([]*Ty{TNum}, TNum)
	inc := &V{T: n2n, Fn: &Fun{Name: "inc", Impl: func(_ *Evaluator, _ *Ty, a []Arg) *V { return VNum(a[0].V.N + 1) }}}
	dbl := &V{T: n2n, Fn: &Fun{Name: "dbl", Impl: func(_ *Evaluator, _ *Ty, a []Arg) *V { return VNum(a[0].V.N * 2) }}}
	cmpT := TFun([]*Ty{TNum, TStr}, TBool)
	cmp := &V{T: cmpT, Fn: &Fun{Name: "cmp", Impl: func(_ *Evaluator, _ *Ty, a []Arg) *V { return VBool(a[0].V.N > float64(len(a[1].V.S))) }}}
	bind := func(n string, v *V) {
		names = append(names, n)
		ts[n] = v.T
		vs[n] = v
	}
	bind("inc", inc)
	bind("dbl", dbl)
	bind("cmp", cmp)
	bind("fs", &V{T: TList(n2n), L: []*V{inc, dbl, inc}})
	bind("fo", &V{T: TObj(F("f", n2n), F("k", TNum)), O: []*V{dbl, VNum(3)}})
	return
}

func (g *Gen) varsOf(t *Ty) []string {
	var out []string
	for _, n := range g.Vars {
		if Eq(g.EnvT[n], t) {
			out = append(out, n)
		}
	}
	return out
}

// Literal builds a literal (possibly with nested generated sub-expressions)
// of type t.
func (g *Gen) Literal(t *Ty, d int) *E {
	switch t.K {
	case KNum:
		s := NumLits[g.pick(len(NumLits))]
		e := Num(s, LitValue(s))
		if g.p(0.15) {
			return CallF(FPrefix, "-", e)
		}
		return e
	case KStr:
		s := StrPool[g.pick(len(StrPool))]
		if g.p(0.2) && !strings.ContainsAny(s, "`\r") {
			return RawStr(s)
		}
		return Str(s)
	case KBool:
		return Bool(g.p(0.5))
	case KTime:
		txt := TimePool[g.pick(len(TimePool))]
		ts, ok := RefStrtotime(txt, g.Loc)
		if !ok {
			panic("reference: time pool entry outside the reference: " + txt)
		}
		return Time(txt, ts)
	case KList:
		if t.El.K == KBot {
			return List()
		}
		n := 1 + g.pick(3)
		if g.p(0.03) && t.El.IsPrim() {
			n = g.bigSize()
			if n > 140 {
				n = 140
			}
			d = 1
		}
		xs := make([]*E, n)
		for i := range xs {
			xs[i] = g.Expr(t.El, d-1)
		}
		return List(xs...)
	case KMap:
		if t.Key.K == KBot {
			return Map(nil, nil)
		}
		n := 1 + g.pick(3)
		ks, vs := make([]*E, n), make([]*E, n)
		for i := range ks {
			ks[i] = g.Expr(t.Key, min(d-1, 1))
			vs[i] = g.Expr(t.Val, d-1)
		}
		if n > 1 && g.p(0.3) { // duplicate key: last one wins
			ks[n-1] = ks[0].Clone()
		}
		return Map(ks, vs)
	case KObj:
		// any permutation of the fields is a literal of an equal type
		idx := g.R.Perm(len(t.Fs))
		if g.p(0.5) {
			for i := range idx {
				idx[i] = i
			}
		}
		fs, vs := make([]string, len(idx)), make([]*E, len(idx))
		for i, j := range idx {
			fs[i] = t.Fs[j].Name
			vs[i] = g.Expr(t.Fs[j].T, d-1)
		}
		return Obj(fs, vs)
	}
	// maybe / fun: only variables can provide them
	if vs := g.varsOf(t); len(vs) > 0 {
		return Ident(vs[g.pick(len(vs))])
	}
	panic("reference: no literal of type " + t.Canon())
}

func min(a, b int) int {
	if a < b {
		return a
	}
	return b
}

// instantiate finds parameter types for calling f so that it returns t.
func (g *Gen) instantiate(f *Fun, t *Ty) ([]*Ty, bool) {
	m := map[string]*Ty{}
	if !Match(f.Ret, t, m) {
		return nil, false
	}
	ps := make([]*Ty, len(f.Params))
	for i, p := range f.Params {
		q := Subst(p, m)
		for !q.Ground() {
			// bind remaining variables to simple random types
			free := firstVar(q)
			var bt *Ty
			if free == "k" {
				bt = g.Prim()
			} else {
				bt = g.Type(1)
			}
			m[free] = bt
			q = Subst(p, m)
		}
		ps[i] = q
	}
	return ps, true
}

func firstVar(t *Ty) string {
	switch t.K {
	case KVar:
		return t.Var
	case KList, KMaybe:
		return firstVar(t.El)
	case KMap:
		if v := firstVar(t.Key); v != "" {
			return v
		}
		return firstVar(t.Val)
	case KObj:
		for _, f := range t.Fs {
			if v := firstVar(f.T); v != "" {
				return v
			}
		}
	case KFun:
		for _, p := range t.Params {
			if v := firstVar(p); v != "" {
				return v
			}
		}
		return firstVar(t.Ret)
	}
	return ""
}

func hasMaybe(t *Ty) bool {
	switch t.K {
	case KMaybe, KFun:
		return true
	case KList:
		return hasMaybe(t.El)
	case KMap:
		return hasMaybe(t.Val)
	case KObj:
		for _, f := range t.Fs {
			if hasMaybe(f.T) {
				return true
			}
		}
	}
	return false
}

// Poison builds an expression of type t whose evaluation fails with a
// documented partial-operation failure.
func (g *Gen) Poison(t *Ty, d int) *E {
	if t.K == KNum && g.p(0.3) {
		return CallF(FInfix, "%", g.Expr(TNum, 0), Num("0", 0))
	}
	if t.K == KBool && g.p(0.3) && g.Opt.MaxDepth > 0 {
		return Call("match", Str("("), g.Expr(TStr, 0))
	}
	if t.K == KBot || hasMaybe(t) {
		return Subscript(List(), Num("0", 0))
	}
	if g.p(0.3) {
		ks := []string{"nokey", "missing", "?"}
		return Subscript(Map([]*E{Str("present")}, []*E{g.Expr(t, d-1)}), Str(ks[g.pick(3)]))
	}
	idx := []*E{Num("1", 1), Num("2", 2), CallF(FPrefix, "-", Num("1", 1)), Num("1e30", 1e30),
		CallF(FInfix, "/", Num("0", 0), Num("0", 0)), CallF(FInfix, "/", Num("1", 1), Num("0", 0)), Num("1.5", 1.5)}
	return Subscript(List(g.Expr(t, d-1)), idx[g.pick(len(idx))])
}

// Index draws an index expression for a list of (statically unknown) length.
func (g *Gen) Index() *E {
	if g.p(g.Opt.PBoundary) {
		c := []*E{CallF(FPrefix, "-", Num("1", 1)), CallF(FPrefix, "-", Num("0.5", 0.5)), Num("0.5", 0.5),
			Num("1.9", 1.9), Num("3", 3), Num("1e30", 1e30), CallF(FInfix, "/", Num("0", 0), Num("0", 0)),
			CallF(FInfix, "/", Num("1", 1), Num("0", 0)), Num("9223372036854775808", 9223372036854775808),
			CallF(FPrefix, "-", Num("0", 0))}
		return c[g.pick(len(c))]
	}
	i := g.pick(3)
	return Num(strconv.Itoa(i), float64(i))
}

// Expr builds an expression of type t (well-typed by construction under the
// reference rules; the reference checker is the judge).
func (g *Gen) Expr(t *Ty, d int) *E {
	e := g.expr0(t, d)
	if g.p(g.Opt.PGroup) {
		return Group(e)
	}
	return e
}

func (g *Gen) expr0(t *Ty, d int) *E {
	if t.K == KBot {
		return Subscript(List(), Num("0", 0))
	}
	if d > 0 && g.p(g.Opt.PFail) {
		return g.Poison(t, d)
	}
	vars := g.varsOf(t)
	if d <= 0 {
		if len(vars) > 0 && g.p(0.5) {
			return Ident(vars[g.pick(len(vars))])
		}
		return g.Literal(t, 0)
	}
	switch c := g.pick(12); {
	case c == 0 && len(vars) > 0:
		return Ident(vars[g.pick(len(vars))])
	case c <= 1:
		return g.Literal(t, d)
	case c == 2: // member access on an object literal or an object variable
		if !hasMaybe(t) {
			fs := []Fld{{"f", t}}
			if g.p(0.7) {
				fs = append(fs, Fld{"g", g.Type(1)})
			}
			if g.p(0.5) {
				fs = append([]Fld{{"e", g.Type(0)}}, fs...)
			}
			return Member(g.Literal(&Ty{K: KObj, Fs: fs}, d), "f")
		}
	case c == 3: // member access on a variable that has such a field
		var cands [][2]string
		for _, n := range g.Vars {
			vt := g.EnvT[n]
			if vt.K == KObj {
				for _, f := range vt.Fs {
					if Eq(f.T, t) {
						cands = append(cands, [2]string{n, f.Name})
					}
				}
			}
		}
		if len(cands) > 0 {
			c := cands[g.pick(len(cands))]
			return Member(Ident(c[0]), c[1])
		}
	case c == 4: // subscript on a list
		if !hasMaybe(t) || len(g.varsOf(TList(t))) > 0 {
			var base *E
			if lv := g.varsOf(TList(t)); len(lv) > 0 && g.p(0.5) {
				base = Ident(lv[g.pick(len(lv))])
				return Subscript(base, g.Index())
			}
			if !hasMaybe(t) {
				n := 1 + g.pick(3)
				xs := make([]*E, n)
				for i := range xs {
					xs[i] = g.Expr(t, d-1)
				}
				i := g.pick(n)
				if g.p(g.Opt.PBoundary) {
					return Subscript(List(xs...), g.Index())
				}
				return Subscript(List(xs...), Num(strconv.Itoa(i), float64(i)))
			}
		}
	case c == 5: // subscript on a map
		kt := g.Prim()
		if mv := g.varsOf(TMap(kt, t)); len(mv) > 0 && g.p(0.6) {
			return Subscript(Ident(mv[g.pick(len(mv))]), g.Expr(kt, min(d-1, 1)))
		}
		if !hasMaybe(t) {
			k := g.Literal(kt, 0)
			return Subscript(Map([]*E{k}, []*E{g.Expr(t, d-1)}), k.Clone())
		}
	}
	// dynamic call: the callee is an expression of function type
	if d > 0 && g.p(0.06) {
		if _, ok := g.EnvT["fs"]; ok {
			var callee *E
			var params []*Ty
			switch {
			case Eq(t, TNum):
				params = []*Ty{TNum}
				switch g.pick(4) {
				case 0:
					callee = Subscript(Ident("fs"), g.Index())
				case 1:
					callee = Call("if", g.Expr(TBool, d-1), Ident("inc"), Ident("dbl"))
				case 2:
					callee = Member(Ident("fo"), "f")
				default:
					callee = CallF(FTernary, "if", g.Expr(TBool, d-1), Subscript(Ident("fs"), Num("1", 1)), Ident("inc"))
				}
			case Eq(t, TBool):
				params = []*Ty{TNum, TStr}
				callee = Call("if", g.Expr(TBool, d-1), Ident("cmp"), Ident("cmp"))
			}
			if callee != nil {
				args := make([]*E, len(params))
				for i, p := range params {
					args[i] = g.Expr(p, d-1)
				}
				return DynCall(callee, args...)
			}
		}
	}
	// call of a function returning t
	type cand struct {
		f  *Fun
		ps []*Ty
	}
	var cs []cand
	for _, f := range g.FT.Funs {
		if f.Name == "print" && !g.Opt.AllowPrint {
			continue
		}
		if f.User != "" && !g.Opt.UserFuns {
			continue
		}
		if f.User == "hidden" {
			continue
		}
		if ps, ok := g.instantiate(f, t); ok {
			usable := true
			for _, p := range ps {
				if hasMaybe(p) && len(g.varsOf(p)) == 0 {
					usable = false
				}
				if p.HasBot() {
					usable = false
				}
			}
			if usable {
				cs = append(cs, cand{f, ps})
			}
		}
	}
	if len(cs) == 0 {
		return g.Literal(t, d)
	}
	c := cs[g.pick(len(cs))]
	args := make([]*E, len(c.ps))
	for i, p := range c.ps {
		args[i] = g.Expr(p, d-1)
	}
	if c.f.Name == "strtotime" && g.p(0.85) {
		args[0] = Str(TimePool[g.pick(len(TimePool))])
	}
	if c.f.Name == "get" && len(args) == 3 && c.ps[0].K == KList && g.p(0.5) {
		args[1] = g.Index()
	}
	e := Call(c.f.Name, args...)
	if g.p(g.Opt.PSugar) {
		switch {
		case IsInfixOp(c.f.Name) && len(args) == 2:
			e.Form = FInfix
		case IsPrefixOp(c.f.Name) && len(args) == 1:
			e.Form = FPrefix
		case c.f.Name == "if" && g.p(0.6):
			e.Form = FTernary
		case isIdentName(c.f.Name) && len(args) >= 1 && g.p(0.4):
			e.Form = FMethod
		}
	}
	return e
}
