package ref

import (
	"fmt"
	"strconv"
	"strings"
)

// Fixity of an operator declaration.
type Fixity int

const (
	Prefix Fixity = iota
	InfixN
	InfixL
	InfixR
	Postfix
)

type OpDecl struct {
	Name string
	BP   float64
	Fix  Fixity
}

// Node is a reference parse tree with the source span it covers.
type Node struct {
	Kind string // id num str time bool list map obj grp pre post bin tern call mem sub
	Text string // leaf text, operator name or member name
	Fix  Fixity
	Kids []*Node
	Keys []*Node  // map keys
	Flds []string // obj field names
	// span: first token's start, last token's end
	Idx, IdxEnd, Line, Col int
}

func (n *Node) span(first, last *Node) *Node {
	n.Idx, n.Line, n.Col = first.Idx, first.Line, first.Col
	n.IdxEnd = last.IdxEnd
	return n
}

// Sexp renders the tree; groups are erased when eraseGroups is set.
func (n *Node) Sexp(eraseGroups bool) string {
	var b strings.Builder
	n.sexp(&b, eraseGroups)
	return b.String()
}

func (n *Node) sexp(b *strings.Builder, eg bool) {
	switch n.Kind {
	case "id", "num", "str", "time", "bool":
		b.WriteString(n.Text)
		return
	case "grp":
		if eg {
			n.Kids[0].sexp(b, eg)
			return
		}
	}
	b.WriteString("(" + n.Kind)
	if n.Kind == "pre" || n.Kind == "post" || n.Kind == "bin" || n.Kind == "mem" || n.Kind == "tern" {
		b.WriteString(" " + n.Text)
	}
	for i, k := range n.Kids {
		b.WriteString(" ")
		if n.Kind == "map" {
			n.Keys[i].sexp(b, eg)
			b.WriteString("=>")
		}
		if n.Kind == "obj" {
			b.WriteString(n.Flds[i] + "=")
		}
		k.sexp(b, eg)
	}
	b.WriteString(")")
}

// RefParser is the reference precedence parser for one operator table.
type RefParser struct {
	prefix map[string]OpDecl
	infix  map[string]OpDecl // infix and postfix
	toks   []Tok
	i      int
}

type SyntaxError struct{ Msg string }

func (e *SyntaxError) Error() string { return e.Msg }

func NewRefParser(ops []OpDecl) *RefParser {
	p := &RefParser{prefix: map[string]OpDecl{}, infix: map[string]OpDecl{}}
	for _, o := range ops {
		if o.Fix == Prefix {
			p.prefix[o.Name] = o
		} else {
			p.infix[o.Name] = o
		}
	}
	return p
}

const (
	bpCondR = 2.0
	bpCallR = 12.0
	bpMembR = 13.0
)

func (p *RefParser) fail(format string, a ...interface{}) {
	panic(&SyntaxError{fmt.Sprintf(format, a...)})
}

var eofTok = Tok{Kind: "<eof>", Lexeme: "<END-OF-FILE>", Idx: -1, IdxEnd: -1, Line: -1, Col: -1}

func (p *RefParser) peek() Tok {
	if p.i >= len(p.toks) {
		return eofTok
	}
	return p.toks[p.i]
}

func (p *RefParser) next() Tok {
	t := p.peek()
	if p.i < len(p.toks) {
		p.i++
	}
	return t
}

func (p *RefParser) expect(kind string) Tok {
	t := p.next()
	if t.Kind != kind {
		p.fail("expect %s, got %s", kind, t.Kind)
	}
	return t
}

func leaf(kind string, t Tok) *Node {
	return &Node{Kind: kind, Text: t.Lexeme, Idx: t.Idx, IdxEnd: t.IdxEnd, Line: t.Line, Col: t.Col}
}

// Parse returns the tree or a *SyntaxError.
func (p *RefParser) Parse(toks []Tok) (n *Node, err error) {
	p.toks, p.i = toks, 0
	defer func() {
		if r := recover(); r != nil {
			if se, ok := r.(*SyntaxError); ok {
				n, err = nil, se
				return
			}
			panic(r)
		}
	}()
	n = p.expr(0, false)
	if p.peek().Kind != "<eof>" {
		p.fail("trailing token %s", p.peek().Lexeme)
	}
	return n, nil
}

// lbp of the next token: 0 when it cannot continue an expression
func (p *RefParser) lbp(t Tok) float64 {
	switch t.Kind {
	case "?":
		return bpCondR
	case ".":
		return bpMembR
	case "(":
		return bpCallR
	case "[":
		return bpMembR
	}
	if o, ok := p.infix[t.Kind]; ok && isOperatorKind(t.Kind) {
		return o.BP
	}
	return 0
}

func isOperatorKind(k string) bool {
	switch k {
	case "<sym>", "<num>", "<str>", "<time>", "true", "false", "<eof>", ",", ":", ")", "]", "{", "}":
		return false
	}
	return true
}

// expr parses operators binding tighter than rbp (or at least as tight when
// incl is set: the right operand of a right-associative operator).
func (p *RefParser) expr(rbp float64, incl bool) *Node {
	left := p.nud(p.next())
	for {
		l := p.lbp(p.peek())
		if !(l > rbp || (incl && l == rbp && l > 0)) {
			break
		}
		left = p.led(p.next(), left)
	}
	return left
}

func validNum(s string) bool {
	if _, err := strconv.ParseFloat(s, 64); err == nil {
		return true
	}
	for _, pre := range []struct {
		p string
		b int
	}{{"0x", 16}, {"0b", 2}, {"0o", 8}} {
		if strings.HasPrefix(s, pre.p) {
			if _, err := strconv.ParseInt(s[2:], pre.b, 64); err == nil {
				return true
			}
		}
	}
	return false
}

func (p *RefParser) nud(t Tok) *Node {
	switch t.Kind {
	case "<sym>":
		return leaf("id", t)
	case "true", "false":
		return leaf("bool", t)
	case "<num>":
		if !validNum(t.Lexeme) {
			p.fail("invalid number %s", t.Lexeme)
		}
		return leaf("num", t)
	case "<str>":
		if _, err := strconv.Unquote(t.Lexeme); err != nil {
			p.fail("invalid string %s", t.Lexeme)
		}
		return leaf("str", t)
	case "<time>":
		return leaf("time", t)
	case "(":
		first := leaf("(", t)
		x := p.expr(0, false)
		rp := p.expect(")")
		return (&Node{Kind: "grp", Kids: []*Node{x}}).span(first, leaf(")", rp))
	case "[":
		return p.listMap(t)
	case "{":
		first := leaf("{", t)
		n := &Node{Kind: "obj"}
		for p.peek().Kind != "}" {
			name := p.expect("<sym>")
			p.expect(":")
			n.Flds = append(n.Flds, name.Lexeme)
			n.Kids = append(n.Kids, p.expr(0, false))
			if p.peek().Kind != "," {
				break
			}
			p.next()
		}
		rb := p.expect("}")
		return n.span(first, leaf("}", rb))
	}
	if o, ok := p.prefix[t.Kind]; ok && isOperatorKind(t.Kind) {
		first := leaf("op", t)
		x := p.expr(o.BP, false)
		return (&Node{Kind: "pre", Text: t.Lexeme, Kids: []*Node{x}}).span(first, x)
	}
	p.fail("unexpected %s", t.Lexeme)
	return nil
}

func (p *RefParser) listMap(t Tok) *Node {
	first := leaf("[", t)
	if p.peek().Kind == ":" {
		p.next()
		rb := p.expect("]")
		return (&Node{Kind: "map"}).span(first, leaf("]", rb))
	}
	if p.peek().Kind == "]" {
		rb := p.next()
		return (&Node{Kind: "list"}).span(first, leaf("]", rb))
	}
	x := p.expr(0, false)
	if p.peek().Kind == ":" {
		n := &Node{Kind: "map"}
		k := x
		for {
			p.expect(":")
			v := p.expr(0, false)
			n.Keys = append(n.Keys, k)
			n.Kids = append(n.Kids, v)
			if p.peek().Kind != "," {
				break
			}
			p.next()
			if p.peek().Kind == "]" {
				break
			}
			k = p.expr(0, false)
		}
		rb := p.expect("]")
		return n.span(first, leaf("]", rb))
	}
	n := &Node{Kind: "list", Kids: []*Node{x}}
	for p.peek().Kind == "," {
		p.next()
		if p.peek().Kind == "]" {
			break
		}
		n.Kids = append(n.Kids, p.expr(0, false))
	}
	rb := p.expect("]")
	return n.span(first, leaf("]", rb))
}

func (p *RefParser) call(callee *Node) *Node {
	n := &Node{Kind: "call", Kids: []*Node{callee}}
	if p.peek().Kind == ")" {
		rp := p.next()
		return n.span(callee, leaf(")", rp))
	}
	for {
		n.Kids = append(n.Kids, p.expr(0, false))
		if p.peek().Kind != "," {
			break
		}
		p.next()
	}
	rp := p.expect(")")
	return n.span(callee, leaf(")", rp))
}

func (p *RefParser) led(t Tok, left *Node) *Node {
	switch t.Kind {
	case "?":
		m := p.expr(0, false)
		p.expect(":")
		r := p.expr(bpCondR, true)
		return (&Node{Kind: "tern", Text: "?", Kids: []*Node{left, m, r}}).span(left, r)
	case ".":
		name := p.next()
		if name.Kind == "<eof>" {
			p.fail("member name expected")
		}
		mem := (&Node{Kind: "mem", Text: name.Lexeme, Kids: []*Node{left}}).span(left, leaf("name", name))
		if p.peek().Kind == "(" {
			p.next()
			return p.call(mem)
		}
		return mem
	case "(":
		return p.call(left)
	case "[":
		ix := p.expr(0, false)
		rb := p.expect("]")
		return (&Node{Kind: "sub", Kids: []*Node{left, ix}}).span(left, leaf("]", rb))
	}
	o := p.infix[t.Kind]
	switch o.Fix {
	case Postfix:
		return (&Node{Kind: "post", Text: t.Lexeme, Kids: []*Node{left}}).span(left, leaf("op", t))
	case InfixL:
		r := p.expr(o.BP, false)
		return (&Node{Kind: "bin", Text: t.Lexeme, Fix: InfixL, Kids: []*Node{left, r}}).span(left, r)
	case InfixR:
		r := p.expr(o.BP, true)
		return (&Node{Kind: "bin", Text: t.Lexeme, Fix: InfixR, Kids: []*Node{left, r}}).span(left, r)
	default: // non-associative: may not be chained with itself without parentheses
		r := p.expr(o.BP, false)
		if left.Kind == "bin" && left.Text == t.Lexeme {
			p.fail("%s is non-associative", t.Lexeme)
		}
		if r.Kind == "bin" && r.Text == t.Lexeme {
			p.fail("%s is non-associative", t.Lexeme)
		}
		return (&Node{Kind: "bin", Text: t.Lexeme, Fix: InfixN, Kids: []*Node{left, r}}).span(left, r)
	}
}
