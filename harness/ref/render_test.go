package ref

import (
	"math/rand"
	"testing"
	"time"
)

// the two renderers must produce the same text
func TestRenderColsAgrees(t *testing.T) {
	for i := 0; i < 20000; i++ {
		g := &Gen{R: rand.New(rand.NewSource(int64(i))), FT: Builtins().Add(UserFuns()...), Loc: time.UTC,
			Opt: GenOpt{MaxDepth: 5, PFail: 0.1, PSugar: 0.7, PBoundary: 0.3, PGroup: 0.1, UserFuns: true}}
		names, ts, _ := g.StdEnv()
		g.EnvT, g.Vars = ts, names
		e := g.Expr(g.Type(2), 1+g.R.Intn(5))
		if g.R.Intn(3) == 0 {
			e = g.Mutate(e)
		}
		if !Renderable(e) {
			continue
		}
		a := Render(e)
		b, _ := RenderCols(e)
		if a != b {
			t.Fatalf("seed %d:\n%s\n%s", i, a, b)
		}
	}
}
