package ref

// Mutate applies one type-breaking (or at least type-perturbing) mutation to
// a copy of e. The result is syntactically valid; whether it is well-typed is
// for the checkers to say.
func (g *Gen) Mutate(e *E) *E {
	c := e.Clone()
	var nodes []*E
	c.Walk(func(x *E) { nodes = append(nodes, x) })
	for try := 0; try < 8; try++ {
		x := nodes[g.pick(len(nodes))]
		switch g.pick(12) {
		case 0: // replace a sub-term by a literal of a random (probably other) type
			*x = *g.Literal(g.Type(1), 1)
			return c
		case 1: // drop an argument / element
			if (x.K == ECall || x.K == EList) && len(x.Args) > 0 {
				i := g.pick(len(x.Args))
				x.Args = append(x.Args[:i:i], x.Args[i+1:]...)
				return c
			}
		case 2: // add an argument / element
			if x.K == ECall || x.K == EList {
				x.Args = append(x.Args, g.Literal(g.Type(1), 1))
				return c
			}
		case 3: // rename a field in an object literal or a member access
			if x.K == EObj && len(x.Fields) > 0 {
				x.Fields[g.pick(len(x.Fields))] = []string{"zz", "a", "b", "f"}[g.pick(4)]
				return c
			}
			if x.K == EMember {
				x.Name = []string{"zz", "a", "b", "nope"}[g.pick(4)]
				return c
			}
		case 4: // composite or differently typed map key
			if x.K == EMap && len(x.Keys) > 0 {
				x.Keys[g.pick(len(x.Keys))] = g.Literal(g.Type(1), 1)
				return c
			}
		case 5: // heterogeneous element
			if x.K == EList && len(x.Args) > 0 {
				x.Args[g.pick(len(x.Args))] = g.Literal(g.Type(1), 1)
				return c
			}
			if x.K == EMap && len(x.Args) > 0 {
				x.Args[g.pick(len(x.Args))] = g.Literal(g.Type(1), 1)
				return c
			}
		case 6: // wrap in a list (type constructor mismatch deep inside)
			inner := *x
			*x = *List(&inner)
			return c
		case 7: // use an empty literal where a typed container is expected
			if x.K == EList && len(x.Args) > 0 {
				x.Args = nil
				return c
			}
			if x.K == EMap && len(x.Args) > 0 {
				x.Args, x.Keys = nil, nil
				return c
			}
		case 8: // call another function with the same arguments
			if x.K == ECall {
				names := []string{"len", "get", "max", "string", "if", "union", "isset", "ov", "fst", "+", "==", "<", "&&", "abs", "match", "cat", "area", "wrap", "pair"}
				x.Name = names[g.pick(len(names))]
				x.Form = FCall
				return c
			}
		case 9: // reserved or undefined identifier
			if x.K == EIdent {
				x.Name = []string{"map", "list", "match", "undefined_name", "fn", "xs", "o"}[g.pick(7)]
				return c
			}
		case 10: // subscript with a wrong index type
			if x.K == ESubscript {
				x.Args[1] = g.Literal(g.Type(1), 1)
				return c
			}
		case 11: // swap two arguments
			if x.K == ECall && len(x.Args) >= 2 {
				i, j := g.pick(len(x.Args)), g.pick(len(x.Args))
				x.Args[i], x.Args[j] = x.Args[j], x.Args[i]
				return c
			}
		}
	}
	return c
}
