package ref

import (
	"math"
	"sort"
	"strconv"
	"strings"
	"time"
)

// KV is one map entry; maps keep insertion order of first occurrence, a later
// duplicate key replaces the value (last wins).
type KV struct {
	K *V
	V *V
}

// V is a reference value.
type V struct {
	T  *Ty
	N  float64
	S  string
	B  bool
	Tm time.Time
	L  []*V
	M  []KV
	O  []*V // aligned with T.Fs
	P  *V   // maybe payload, nil = Nothing
	Fn *Fun // function value (dynamic callee)
}

func VNum(n float64) *V    { return &V{T: TNum, N: n} }
func VStr(s string) *V     { return &V{T: TStr, S: s} }
func VBool(b bool) *V      { return &V{T: TBool, B: b} }
func VTime(t time.Time) *V { return &V{T: TTime, Tm: t} }
func VList(el *Ty, xs ...*V) *V {
	return &V{T: TList(el), L: xs}
}
func VMap(k, v *Ty, kvs ...KV) *V {
	m := &V{T: TMap(k, v)}
	for _, kv := range kvs {
		m.MapPut(kv.K, kv.V)
	}
	return m
}
func VObj(t *Ty, vs ...*V) *V { return &V{T: t, O: vs} }
func VJust(el *Ty, p *V) *V   { return &V{T: TMaybe(el), P: p} }
func VNothing(el *Ty) *V      { return &V{T: TMaybe(el)} }

func (m *V) MapPut(k, v *V) {
	ks := KeyOf(k)
	for i := range m.M {
		if KeyOf(m.M[i].K) == ks {
			m.M[i] = KV{k, v}
			return
		}
	}
	m.M = append(m.M, KV{k, v})
}

func (m *V) MapGet(k *V) (*V, bool) {
	ks := KeyOf(k)
	for i := range m.M {
		if KeyOf(m.M[i].K) == ks {
			return m.M[i].V, true
		}
	}
	return nil, false
}

func (o *V) FieldVal(name string) *V {
	for i, f := range o.T.Fs {
		if f.Name == name {
			return o.O[i]
		}
	}
	return nil
}

// FmtNum is the documented number rendering: integral values inside the int64
// range as integers, everything else in shortest 'f' form.
func FmtNum(n float64) string {
	if n == math.Trunc(n) && n >= -9223372036854775808.0 && n < 9223372036854775808.0 {
		return strconv.FormatInt(int64(n), 10)
	}
	return strconv.FormatFloat(n, 'f', -1, 64)
}

// KeyOf is the identity of a primitive value as a map key.
func KeyOf(v *V) string {
	switch v.T.K {
	case KBool:
		return "b" + strconv.FormatBool(v.B)
	case KNum:
		return "n" + FmtNum(v.N)
	case KStr:
		return "s" + v.S
	case KTime:
		return "t" + v.Tm.String()
	}
	return "?"
}

// keyText is how a map key is rendered by both renderers.
func keyText(v *V) string {
	switch v.T.K {
	case KBool:
		return strconv.FormatBool(v.B)
	case KNum:
		return FmtNum(v.N)
	case KStr:
		return strconv.Quote(v.S)
	case KTime:
		return strconv.Quote(v.Tm.String())
	}
	return "?"
}

// TyText renders a type the way yae prints types (used inside Just#T()).
func TyText(t *Ty) string {
	switch t.K {
	case KNum:
		return "num"
	case KStr:
		return "str"
	case KBool:
		return "bool"
	case KTime:
		return "time"
	case KBot:
		return "⊥"
	case KVar:
		return "'" + t.Var
	case KList:
		return "list[" + TyText(t.El) + "]"
	case KMaybe:
		return "maybe[" + TyText(t.El) + "]"
	case KMap:
		return "map[" + TyText(t.Key) + ", " + TyText(t.Val) + "]"
	case KObj:
		xs := make([]string, len(t.Fs))
		for i, f := range t.Fs {
			xs[i] = f.Name + ": " + TyText(f.T)
		}
		return "{" + strings.Join(xs, ", ") + "}"
	case KFun:
		xs := make([]string, len(t.Params))
		for i, p := range t.Params {
			xs[i] = TyText(p)
		}
		return "func (" + strings.Join(xs, ", ") + ") " + TyText(t.Ret)
	}
	return "?"
}

// Show is the canonical rendering (what print, the debug report and the set
// functions use): strings quoted, map entries sorted by rendered key, object
// fields sorted by name.
func Show(v *V) string {
	switch v.T.K {
	case KNum:
		return FmtNum(v.N)
	case KBool:
		return strconv.FormatBool(v.B)
	case KStr:
		return strconv.Quote(v.S)
	case KTime:
		return v.Tm.String()
	case KList:
		xs := make([]string, len(v.L))
		for i, x := range v.L {
			xs[i] = Show(x)
		}
		return "[" + strings.Join(xs, ", ") + "]"
	case KMap:
		if len(v.M) == 0 {
			return "[:]"
		}
		type ent struct{ k, s string }
		es := make([]ent, len(v.M))
		for i, kv := range v.M {
			kt := keyText(kv.K)
			es[i] = ent{kt, kt + ": " + Show(kv.V)}
		}
		sort.SliceStable(es, func(i, j int) bool { return es[i].k < es[j].k })
		xs := make([]string, len(es))
		for i, e := range es {
			xs[i] = e.s
		}
		return "[" + strings.Join(xs, ", ") + "]"
	case KObj:
		type ent struct{ k, s string }
		es := make([]ent, len(v.O))
		for i, f := range v.T.Fs {
			es[i] = ent{f.Name, f.Name + ": " + Show(v.O[i])}
		}
		sort.SliceStable(es, func(i, j int) bool { return es[i].k < es[j].k })
		xs := make([]string, len(es))
		for i, e := range es {
			xs[i] = e.s
		}
		return "{" + strings.Join(xs, ", ") + "}"
	case KMaybe:
		if v.P == nil {
			return "Nothing#" + TyText(v.T.El) + "()"
		}
		return "Just#" + TyText(v.T.El) + "(" + Show(v.P) + ")"
	case KFun:
		return "<fun>"
	}
	return "?"
}

// Stringify is the result of the built-in string(x): strings unquoted at
// every depth, map entries sorted by rendered key, objects in declaration
// order of the value's own type.
func Stringify(v *V) string {
	switch v.T.K {
	case KNum:
		return FmtNum(v.N)
	case KBool:
		return strconv.FormatBool(v.B)
	case KStr:
		return v.S
	case KTime:
		return v.Tm.String()
	case KList:
		xs := make([]string, len(v.L))
		for i, x := range v.L {
			xs[i] = Stringify(x)
		}
		return "[" + strings.Join(xs, ", ") + "]"
	case KMap:
		if len(v.M) == 0 {
			return "[:]"
		}
		type ent struct{ k, s string }
		es := make([]ent, len(v.M))
		for i, kv := range v.M {
			kt := keyText(kv.K)
			es[i] = ent{kt, kt + ": " + Stringify(kv.V)}
		}
		sort.SliceStable(es, func(i, j int) bool { return es[i].k < es[j].k })
		xs := make([]string, len(es))
		for i, e := range es {
			xs[i] = e.s
		}
		return "[" + strings.Join(xs, ", ") + "]"
	case KObj:
		xs := make([]string, len(v.O))
		for i, f := range v.T.Fs {
			xs[i] = f.Name + ": " + Stringify(v.O[i])
		}
		return "{" + strings.Join(xs, ", ") + "}"
	case KMaybe:
		if v.P == nil {
			return "Nothing()"
		}
		return "Just(" + Stringify(v.P) + ")"
	case KFun:
		return "#fun"
	}
	return "?"
}

const Eps = 1e-9

// ValEq is the documented == on values (tolerance on numbers, instants on
// times, element-wise on containers, objects by field name).
func ValEq(a, b *V) bool {
	if !Eq(a.T, b.T) {
		return false
	}
	switch a.T.K {
	case KNum:
		return a.N == b.N || math.Abs(a.N-b.N) < Eps
	case KStr:
		return a.S == b.S
	case KBool:
		return a.B == b.B
	case KTime:
		return a.Tm.Equal(b.Tm)
	case KList:
		if len(a.L) != len(b.L) {
			return false
		}
		for i := range a.L {
			if !ValEq(a.L[i], b.L[i]) {
				return false
			}
		}
		return true
	case KMap:
		if len(a.M) != len(b.M) {
			return false
		}
		for _, kv := range a.M {
			w, ok := b.MapGet(kv.K)
			if !ok || !ValEq(kv.V, w) {
				return false
			}
		}
		return true
	case KObj:
		if len(a.O) != len(b.O) {
			return false
		}
		for i, f := range a.T.Fs {
			w := b.FieldVal(f.Name)
			if w == nil || !ValEq(a.O[i], w) {
				return false
			}
		}
		return true
	case KMaybe:
		if a.P == nil || b.P == nil {
			return a.P == nil && b.P == nil
		}
		return ValEq(a.P, b.P)
	}
	return a == b
}

// Same is exact structural identity (float bits, NaN == NaN), used to compare
// observations with predictions and back ends with each other.
func Same(a, b *V) bool {
	if a == nil || b == nil {
		return a == b
	}
	if !Eq(a.T, b.T) {
		return false
	}
	switch a.T.K {
	case KNum:
		if math.IsNaN(a.N) && math.IsNaN(b.N) {
			return true
		}
		return math.Float64bits(a.N) == math.Float64bits(b.N)
	case KStr:
		return a.S == b.S
	case KBool:
		return a.B == b.B
	case KTime:
		return a.Tm.Equal(b.Tm)
	case KList:
		if len(a.L) != len(b.L) {
			return false
		}
		for i := range a.L {
			if !Same(a.L[i], b.L[i]) {
				return false
			}
		}
		return true
	case KMap:
		if len(a.M) != len(b.M) {
			return false
		}
		for _, kv := range a.M {
			w, ok := b.MapGet(kv.K)
			if !ok || !Same(kv.V, w) {
				return false
			}
		}
		return true
	case KObj:
		if len(a.O) != len(b.O) {
			return false
		}
		for i, f := range a.T.Fs {
			w := b.FieldVal(f.Name)
			if w == nil || !Same(a.O[i], w) {
				return false
			}
		}
		return true
	case KMaybe:
		if a.P == nil || b.P == nil {
			return a.P == nil && b.P == nil
		}
		return Same(a.P, b.P)
	case KFun:
		return true
	}
	return false
}

// Dump is an unambiguous debugging serialisation (exact floats).
func Dump(v *V) string {
	if v == nil {
		return "<nil>"
	}
	switch v.T.K {
	case KNum:
		if v.N == 0 && math.Signbit(v.N) {
			return "-0"
		}
		return strconv.FormatFloat(v.N, 'g', -1, 64)
	case KList:
		xs := make([]string, len(v.L))
		for i, x := range v.L {
			xs[i] = Dump(x)
		}
		return "[" + strings.Join(xs, ",") + "]:" + v.T.Canon()
	case KMap:
		xs := make([]string, len(v.M))
		for i, kv := range v.M {
			// keys by their identity as keys (-0 and 0 are one key)
			xs[i] = KeyOf(kv.K) + "=>" + Dump(kv.V)
		}
		sort.Strings(xs)
		return "[" + strings.Join(xs, ",") + "]:" + v.T.Canon()
	case KObj:
		xs := make([]string, len(v.O))
		for i, f := range v.T.Fs {
			xs[i] = f.Name + "=" + Dump(v.O[i])
		}
		sort.Strings(xs)
		return "{" + strings.Join(xs, ",") + "}"
	case KMaybe:
		if v.P == nil {
			return "Nothing:" + v.T.Canon()
		}
		return "Just(" + Dump(v.P) + ")"
	case KTime:
		return "@" + strconv.FormatInt(v.Tm.Unix(), 10)
	}
	return Show(v)
}
