package ref

import (
	"fmt"
	"time"
)

// Call is one observed invocation of a harness-registered (traced) function.
type TraceEntry struct {
	Fn   string
	Args string
}

// Evaluator is the reference evaluator's state for one execution.
type Evaluator struct {
	Env     map[string]*V
	FT      *FunTable
	Trace   []TraceEntry
	Printed []string
	Loc     *time.Location
	Steps   int
	// Dbg, when set, receives (value, node) for every identifier, call, member
	// and subscript evaluated (debug-mode reference).
	Dbg func(e *E, v *V)
	// OnTrace, when set, receives trace entries instead of Trace (the bridge
	// uses it to interleave nested host calls in real time).
	OnTrace func(TraceEntry)
}

func (ev *Evaluator) Emit(t TraceEntry) {
	if ev.OnTrace != nil {
		ev.OnTrace(t)
		return
	}
	ev.Trace = append(ev.Trace, t)
}

// Outcome of a reference evaluation.
type Outcome struct {
	V      *V
	Fail   *Fail
	Silent *Silent
}

func (o Outcome) String() string {
	switch {
	case o.Silent != nil:
		return "SILENT(" + o.Silent.Why + ")"
	case o.Fail != nil:
		return "FAIL(" + string(o.Fail.Class) + ")"
	default:
		return "VALUE " + Dump(o.V)
	}
}

// Eval evaluates a checked expression (Check must have annotated it).
func (ev *Evaluator) Eval(e *E) (out Outcome) {
	if ev.Loc == nil {
		ev.Loc = time.Local
	}
	defer func() {
		if r := recover(); r != nil {
			switch x := r.(type) {
			case Fail:
				out = Outcome{Fail: &x}
			case Silent:
				out = Outcome{Silent: &x}
			default:
				panic(r)
			}
		}
	}()
	return Outcome{V: ev.eval(e)}
}

func (ev *Evaluator) dbg(e *E, v *V) *V {
	if ev.Dbg != nil {
		ev.Dbg(e, v)
	}
	return v
}

func (ev *Evaluator) eval(e *E) *V {
	ev.Steps++
	switch e.K {
	case ENum:
		return VNum(e.Num)
	case EStr:
		return VStr(e.Str)
	case EBool:
		return VBool(e.Bool)
	case ETime:
		return VTime(unixTime(e.TimeTs))
	case EGroup:
		return ev.eval(e.Args[0])
	case EIdent:
		v, ok := ev.Env[e.Name]
		if !ok {
			panic(fmt.Sprintf("reference: unbound %s", e.Name))
		}
		return ev.dbg(e, v)
	case EList:
		out := &V{T: e.T}
		if len(e.Args) == 0 {
			out.T = TList(TBot)
		}
		for _, a := range e.Args {
			out.L = append(out.L, ev.eval(a))
		}
		return out
	case EMap:
		out := &V{T: e.T}
		if len(e.Args) == 0 {
			out.T = TMap(TBot, TBot)
		}
		for i := range e.Args {
			k := ev.eval(e.Keys[i])
			v := ev.eval(e.Args[i])
			out.MapPut(k, v)
		}
		return out
	case EObj:
		out := &V{T: e.T}
		for _, a := range e.Args {
			out.O = append(out.O, ev.eval(a))
		}
		return out
	case ECall:
		f := e.Res
		args := make([]Arg, len(e.Args))
		for i, a := range e.Args {
			if f.Lazy {
				a := a
				args[i] = Arg{Thunk: func() *V { return ev.eval(a) }}
			} else {
				args[i] = Arg{V: ev.eval(a)}
			}
		}
		return ev.dbg(e, f.Impl(ev, e.T, args))
	case EDynCall:
		// the callee is evaluated first, then the arguments left to right
		c := ev.eval(e.Args[0])
		args := make([]Arg, len(e.Args)-1)
		for i, a := range e.Args[1:] {
			args[i] = Arg{V: ev.eval(a)}
		}
		return ev.dbg(e, c.Fn.Impl(ev, e.T, args))
	case ESubscript:
		c := ev.eval(e.Args[0])
		i := ev.eval(e.Args[1])
		if c.T.K == KList {
			k, ok := RefIndex(i.N, len(c.L))
			if !ok {
				panic(Fail{FIndex, fmt.Sprintf("index %v of %d", i.N, len(c.L))})
			}
			return ev.dbg(e, c.L[k])
		}
		v, ok := c.MapGet(i)
		if !ok {
			panic(Fail{FKey, "missing key " + Show(i)})
		}
		return ev.dbg(e, v)
	case EMember:
		o := ev.eval(e.Args[0])
		v := o.FieldVal(e.Name)
		if v == nil {
			panic("reference: missing field " + e.Name)
		}
		return ev.dbg(e, v)
	}
	panic("reference: unknown node")
}
