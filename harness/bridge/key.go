package bridge

import (
	"reflect"
	"strconv"
	"strings"
	"time"

	"github.com/goghcrow/yae/types"
	"github.com/goghcrow/yae/val"

	"verif/harness/ref"
)

// keyToVal re-derives the primitive key value from a stored map key and
// checks that its kind tag is the map's declared key type.
func keyToVal(k val.Key, declared *types.Type, path string) *ref.V {
	tag := types.Kind(reflect.ValueOf(k).Field(0).Int())
	if declared.Kind != types.KBot && tag != declared.Kind {
		ill(path, "map key %s tagged %s in a map declared with key type %s", k.String(), tag, declared)
	}
	txt := k.String()
	switch tag {
	case types.KNum:
		f, err := strconv.ParseFloat(txt, 64)
		if err != nil {
			ill(path, "numeric key %q does not parse", txt)
		}
		return ref.VNum(f)
	case types.KBool:
		b, err := strconv.ParseBool(txt)
		if err != nil {
			ill(path, "bool key %q does not parse", txt)
		}
		return ref.VBool(b)
	case types.KStr:
		s, err := strconv.Unquote(txt)
		if err != nil {
			ill(path, "string key %q does not unquote", txt)
		}
		return ref.VStr(s)
	case types.KTime:
		s, err := strconv.Unquote(txt)
		if err != nil {
			ill(path, "time key %q does not unquote", txt)
		}
		t, ok := ParseTimeString(s)
		if !ok {
			ill(path, "time key %q does not parse", s)
		}
		return ref.VTime(t)
	}
	ill(path, "map key %s has non-primitive tag %d", txt, int(tag))
	return nil
}

// ParseTimeString parses the output of time.Time.String().
func ParseTimeString(s string) (time.Time, bool) {
	if i := strings.Index(s, " m="); i >= 0 {
		s = s[:i]
	}
	for _, layout := range []string{
		"2006-01-02 15:04:05.999999999 -0700 MST",
		"2006-01-02 15:04:05.999999999 -0700 -07",
		"2006-01-02 15:04:05.999999999 -0700 -0700",
	} {
		if t, err := time.Parse(layout, s); err == nil {
			return t, true
		}
	}
	return time.Time{}, false
}
