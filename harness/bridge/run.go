package bridge

import (
	"fmt"
	"strings"

	"github.com/goghcrow/yae/closure"
	"github.com/goghcrow/yae/compiler"
	"github.com/goghcrow/yae/fun"
	"github.com/goghcrow/yae/interp"
	"github.com/goghcrow/yae/parser"
	"github.com/goghcrow/yae/parser/ast"
	"github.com/goghcrow/yae/parser/lexer"
	"github.com/goghcrow/yae/parser/oper"
	"github.com/goghcrow/yae/trans"
	"github.com/goghcrow/yae/types"
	"github.com/goghcrow/yae/val"
	"github.com/goghcrow/yae/vm"

	"verif/harness/ref"
)

type Backend int

const (
	VM Backend = iota
	VMCall
	Closure
	Interp
	// the public engine (yae.Expr), kept alive across cases: bytecode and closure compiler
	Engine
	EngineClosure
	NBackends
)

func (b Backend) String() string {
	return [...]string{"vm-switch", "vm-callthread", "closure", "interp", "engine-vm", "engine-closure"}[b]
}

func (b Backend) compiler() compiler.Compiler {
	switch b {
	case VM:
		return vm.Compile
	case VMCall:
		return vm.CompileCallThreaded
	case Closure, EngineClosure:
		return closure.Compile
	case Engine:
		return vm.Compile
	default:
		return interp.Interp
	}
}

// Obs is what one execution let the harness observe.
type Obs struct {
	Trace    []ref.TraceEntry
	HostErrs []string // ill-formed values handed to host functions
}

// Session is one engine configuration: built-ins plus harness functions, with
// the type and value environments the facade would build.
type Session struct {
	Ops  []oper.Operator
	TEnv *types.Env
	VEnv *val.Env
	// UserVals are the real function values of the harness functions, for
	// registration in a facade engine
	UserVals []*val.Val
	cur      *Obs
}

// Begin starts a new observation (for executions driven through the facade).
func (s *Session) Begin() *Obs {
	s.cur = &Obs{}
	return s.cur
}

// NewSession registers the built-ins and then the user functions in order.
func NewSession(user []*ref.Fun) *Session {
	s := &Session{TEnv: types.NewEnv(), VEnv: val.NewEnv(), cur: &Obs{}}
	s.Ops = append(s.Ops, oper.BuiltIn()...)
	for _, f := range fun.BuiltIn() {
		s.TEnv.RegisterFun(f.Type)
		s.VEnv.RegisterFun(f)
	}
	seen := map[*ref.Fun]*val.Val{}
	for _, f := range user {
		v, dup := seen[f]
		if !dup {
			v = s.hostFun(f)
			seen[f] = v
		}
		// (the same *ref.Fun listed twice registers one function VALUE twice)
		s.UserVals = append(s.UserVals, v)
		s.TEnv.RegisterFun(v.Type)
		s.VEnv.RegisterFun(v)
	}
	return s
}

// Register adds further harness functions to a live session (registration
// between two compilations).
func (s *Session) Register(fs ...*ref.Fun) {
	for _, f := range fs {
		v := s.hostFun(f)
		s.UserVals = append(s.UserVals, v)
		s.TEnv.RegisterFun(v.Type)
		s.VEnv.RegisterFun(v)
	}
}

// hostFun wraps a harness function for the real engine: it converts the
// arguments, records the call in the observed trace and runs the same Go
// body the reference uses.
func (s *Session) hostFun(f *ref.Fun) *val.Val {
	ty := ToFunType(f.Name, f.Params, f.Ret)
	if f.User == "push" {
		// the one host function that really mutates the value it is handed
		return val.Fun(ty, func(args ...*val.Val) *val.Val {
			a0, _ := FromVal(args[0], nil)
			a1, _ := FromVal(args[1], nil)
			if a0 != nil && a1 != nil {
				s.cur.Trace = append(s.cur.Trace, ref.TraceEntry{Fn: "push", Args: ref.Show(a0) + ":" + a0.T.Canon() + ", " + ref.Show(a1) + ":" + a1.T.Canon()})
			}
			l := args[0].List()
			l.V = append(l.V, args[1])
			return args[0]
		})
	}
	impl := func(args ...*val.Val) *val.Val {
		obs := s.cur
		rargs := make([]ref.Arg, len(args))
		orig := map[*ref.V]*val.Val{}
		for i, a := range args {
			if f.Lazy {
				a := a
				i := i
				rargs[i] = ref.Arg{Thunk: func() *ref.V {
					r := a.Fun().Call()
					rv, err := FromVal(r, nil)
					if err != nil {
						obs.HostErrs = append(obs.HostErrs, fmt.Sprintf("%s thunk %d: %v", f.Name, i, err))
						panic(fmt.Errorf("verif: ill-formed value from thunk: %v", err))
					}
					orig[rv] = r
					return rv
				}}
			} else {
				rv, err := FromVal(a, nil)
				if err != nil {
					obs.HostErrs = append(obs.HostErrs, fmt.Sprintf("%s arg %d: %v", f.Name, i, err))
					panic(fmt.Errorf("verif: ill-formed argument: %v", err))
				}
				orig[rv] = a
				rargs[i] = ref.Arg{V: rv}
			}
		}
		ev := &ref.Evaluator{OnTrace: func(t ref.TraceEntry) { obs.Trace = append(obs.Trace, t) }}
		out := f.Impl(ev, nil, rargs)
		if o, ok := orig[out]; ok {
			return o
		}
		return ToVal(out)
	}
	if f.Lazy {
		return val.LazyFun(ty, impl)
	}
	return val.Fun(ty, impl)
}

// Parsed is the front half of the pipeline.
type Compiled struct {
	Src    string
	Type   *types.Type
	Run    func(env *val.Env) *val.Val
	RunRaw func(rt *val.Env) *val.Val
	Sess   *Session
	Back   Backend
	Tree   ast.Expr // desugared, checked tree
	Stage  string
}

// CompileErr is a compile-time rejection, with the stage that produced it.
type CompileErr struct {
	Stage string // lex | parse | desugar | check | codegen
	Msg   string
}

func (e *CompileErr) Error() string { return e.Stage + ": " + e.Msg }

func stage(name string, f func()) (err *CompileErr) {
	defer func() {
		if r := recover(); r != nil {
			err = &CompileErr{name, fmt.Sprint(r)}
		}
	}()
	f()
	return nil
}

// ParseSrc lexes and parses with the session's operators.
func (s *Session) ParseSrc(src string) (tree ast.Expr, err *CompileErr) {
	var toks interface{}
	_ = toks
	if e := stage("lex", func() {
		t := lexer.NewLexer(s.Ops).Lex(src)
		if e2 := stage("parse", func() { tree = parser.NewParser(s.Ops).Parse(t) }); e2 != nil {
			panic(e2)
		}
	}); e != nil {
		if strings.HasPrefix(e.Msg, "parse: ") {
			return nil, &CompileErr{"parse", strings.TrimPrefix(e.Msg, "parse: ")}
		}
		return nil, e
	}
	return tree, nil
}

// CompileTree runs desugar, check and code generation on a parsed tree, the
// way the facade does, for one back end. tenv holds the user bindings.
func (s *Session) CompileTree(tree ast.Expr, tenv *types.Env, b Backend) (*Compiled, *CompileErr) {
	c := &Compiled{Sess: s, Back: b}
	var de ast.Expr
	if e := stage("desugar", func() { de = trans.Desugar(tree) }); e != nil {
		return nil, e
	}
	if e := stage("check", func() { c.Type = types.Check(de, tenv.Inherit(s.TEnv)) }); e != nil {
		return nil, e
	}
	var cl compiler.Closure
	if e := stage("codegen", func() { cl = b.compiler()(de, s.VEnv) }); e != nil {
		return nil, e
	}
	c.Tree = de
	c.Run = func(env *val.Env) *val.Val { return cl(env.Inherit(s.VEnv)) }
	c.RunRaw = func(rt *val.Env) *val.Val { return cl(rt) }
	return c, nil
}

// Compile = ParseSrc + CompileTree.
func (s *Session) Compile(src string, tenv *types.Env, b Backend) (*Compiled, *CompileErr) {
	tree, err := s.ParseSrc(src)
	if err != nil {
		return nil, err
	}
	c, err := s.CompileTree(tree, tenv, b)
	if c != nil {
		c.Src = src
	}
	return c, err
}

// OutClass classifies how a real execution ended.
type OutClass string

const (
	OValue    OutClass = "VALUE"
	OIndex    OutClass = "INDEX"
	OKey      OutClass = "KEY"
	OMod0     OutClass = "MOD0"
	ORegex    OutClass = "REGEX"
	OInternal OutClass = "INTERNAL"
	OLimit    OutClass = "EXEC-LIMIT" // call-threaded loop "over exec limit"
)

// Result of one real execution.
type Result struct {
	Class OutClass
	Val   *val.Val
	Msg   string
	Obs   *Obs
}

func Classify(msg string) OutClass {
	switch {
	case strings.HasPrefix(msg, "out of range ") || strings.HasPrefix(msg, "runtime error: index out of range ["):
		return OIndex
	case strings.HasPrefix(msg, "undefined key "):
		return OKey
	case msg == "runtime error: integer divide by zero":
		return OMod0
	case strings.HasPrefix(msg, "error parsing regexp:"):
		return ORegex
	case msg == "over exec limit":
		return OLimit
	}
	return OInternal
}

// Bind creates the run-time environment object a compiled program runs on;
// ExecOn runs on such an object (which the caller may re-bind with Put
// between runs).
func (c *Compiled) Bind(env *val.Env) *val.Env { return env.Inherit(c.Sess.VEnv) }

func (c *Compiled) ExecOn(rt *val.Env) (res Result) {
	obs := &Obs{}
	c.Sess.cur = obs
	res.Obs = obs
	defer func() {
		if r := recover(); r != nil {
			res.Msg = fmt.Sprint(r)
			res.Class = Classify(res.Msg)
			if len(obs.HostErrs) > 0 {
				res.Class = OInternal
			}
		}
	}()
	res.Val = c.RunRaw(rt)
	res.Class = OValue
	return
}

// Exec runs a compiled program on one run-time environment.
func (c *Compiled) Exec(env *val.Env) (res Result) {
	obs := &Obs{}
	c.Sess.cur = obs
	res.Obs = obs
	defer func() {
		if r := recover(); r != nil {
			res.Msg = fmt.Sprint(r)
			res.Class = Classify(res.Msg)
			if len(obs.HostErrs) > 0 {
				res.Class = OInternal
			}
		}
	}()
	res.Val = c.Run(env)
	res.Class = OValue
	return
}

// ExecFunc runs f under the session's observer and classifies the outcome.
func (s *Session) ExecFunc(f func() *val.Val) (res Result) {
	obs := &Obs{}
	s.cur = obs
	res.Obs = obs
	defer func() {
		if r := recover(); r != nil {
			res.Msg = fmt.Sprint(r)
			res.Class = Classify(res.Msg)
			if len(obs.HostErrs) > 0 {
				res.Class = OInternal
			}
		}
	}()
	res.Val = f()
	res.Class = OValue
	return
}

// Env is one set of bindings in reference form.
type Env struct {
	Names []string
	T     map[string]*ref.Ty
	V     map[string]*ref.V
}

func NewEnv() *Env { return &Env{T: map[string]*ref.Ty{}, V: map[string]*ref.V{}} }

func (e *Env) Put(name string, v *ref.V) {
	if _, ok := e.T[name]; !ok {
		e.Names = append(e.Names, name)
	}
	e.T[name] = v.T
	e.V[name] = v
}

// PutTyped binds a value under a declared type that is equal to, but possibly
// laid out differently from, the value's own type.
func (e *Env) PutTyped(name string, t *ref.Ty, v *ref.V) {
	e.Put(name, v)
	e.T[name] = t
}

func (e *Env) TypeEnv() *types.Env {
	te := types.NewEnv()
	memo := map[*ref.Ty]*types.Type{} // two names bound to one type object share its node
	for _, n := range e.Names {
		te.Put(n, toTypeM(e.T[n], map[string]*types.Type{}, memo))
	}
	return te
}

func (e *Env) ValEnv() *val.Env {
	ve := val.NewEnv()
	for _, n := range e.Names {
		ve.Put(n, ToVal(e.V[n]))
	}
	return ve
}
