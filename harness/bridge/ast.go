package bridge

import (
	"fmt"

	"github.com/goghcrow/yae/parser/ast"
	"github.com/goghcrow/yae/parser/pos"

	"verif/harness/ref"
)

// ToAST builds the explicit (sugar-free) tree of a reference expression
// directly as ast nodes: every call is Call(Var(name), args), whatever its
// surface form. Used for programs too large for the (quadratic) lexer and for
// the explicit side of the sugar property.
func ToAST(e *ref.E) ast.Expr {
	p := pos.Unknown
	switch e.K {
	case ref.ENum:
		return ast.Num(e.Text, p)
	case ref.EStr:
		return ast.Str(e.Text, p)
	case ref.EBool:
		if e.Bool {
			return ast.True(p)
		}
		return ast.False(p)
	case ref.ETime:
		return ast.Time(e.Text, p)
	case ref.EIdent:
		return ast.Var(e.Name, p)
	case ref.EGroup:
		return ToAST(e.Args[0])
	case ref.EList:
		xs := make([]ast.Expr, len(e.Args))
		for i, a := range e.Args {
			xs[i] = ToAST(a)
		}
		return ast.List(xs, p)
	case ref.EMap:
		ps := make([]ast.Pair, len(e.Args))
		for i := range e.Args {
			ps[i] = ast.Pair{Key: ToAST(e.Keys[i]), Val: ToAST(e.Args[i])}
		}
		return ast.Map(ps, p)
	case ref.EObj:
		fs := make([]ast.Field, len(e.Args))
		for i := range e.Args {
			fs[i] = ast.Field{Name: e.Fields[i], Val: ToAST(e.Args[i])}
		}
		return ast.Obj(fs, p)
	case ref.ECall:
		xs := make([]ast.Expr, len(e.Args))
		for i, a := range e.Args {
			xs[i] = ToAST(a)
		}
		return ast.Call(ast.Var(e.Name, p), xs, pos.UnknownCol, p)
	case ref.EDynCall:
		xs := make([]ast.Expr, len(e.Args)-1)
		for i, a := range e.Args[1:] {
			xs[i] = ToAST(a)
		}
		callee := ToAST(e.Args[0])
		if k := e.Args[0].K; k == ref.EMember || k == ref.EIdent {
			// a bare member / identifier callee would mean a method call / a
			// function name: the call of a function VALUE needs the group
			callee = ast.Group(callee, p)
		}
		return ast.Call(callee, xs, pos.UnknownCol, p)
	case ref.EMember:
		return ast.Member(ToAST(e.Args[0]), ast.Var(e.Name, p), pos.UnknownCol, p)
	case ref.ESubscript:
		return ast.Subscript(ToAST(e.Args[0]), ToAST(e.Args[1]), pos.UnknownCol, p)
	}
	panic(fmt.Sprintf("bridge: cannot build ast for node kind %d", e.K))
}
