// Package bridge connects the reference models with the real packages.
package bridge

import (
	"fmt"

	"github.com/goghcrow/yae/types"
	"github.com/goghcrow/yae/val"

	"verif/harness/ref"
)

// ToType converts a variable-free reference type.
func ToType(t *ref.Ty) *types.Type { return toType(t, map[string]*types.Type{}) }

func toType(t *ref.Ty, vars map[string]*types.Type) *types.Type { return toTypeM(t, vars, nil) }

// toTypeM: with a memo, one *ref.Ty object listed several times (the `ln` in
// cat :: ln -> ln -> ln) becomes one shared *types.Type node, as in host code
// that builds `L := types.List(types.Num)` once and uses it for two parameters.
func toTypeM(t *ref.Ty, vars map[string]*types.Type, memo map[*ref.Ty]*types.Type) (out *types.Type) {
	if memo != nil && t.K != ref.KVar {
		if n, ok := memo[t]; ok {
			return n
		}
		defer func() { memo[t] = out }()
	}
	toType := func(t *ref.Ty, vars map[string]*types.Type) *types.Type { return toTypeM(t, vars, memo) }
	switch t.K {
	case ref.KNum:
		return types.Num
	case ref.KStr:
		return types.Str
	case ref.KBool:
		return types.Bool
	case ref.KTime:
		return types.Time
	case ref.KBot:
		return types.Bottom
	case ref.KVar:
		if v, ok := vars[t.Var]; ok {
			return v
		}
		v := types.TyVar(t.Var)
		vars[t.Var] = v
		return v
	case ref.KList:
		return types.List(toType(t.El, vars))
	case ref.KMaybe:
		return types.Maybe(toType(t.El, vars))
	case ref.KMap:
		return types.Map(toType(t.Key, vars), toType(t.Val, vars))
	case ref.KObj:
		fs := make([]types.Field, len(t.Fs))
		for i, f := range t.Fs {
			fs[i] = types.Field{Name: f.Name, Val: toType(f.T, vars)}
		}
		return types.Obj(fs)
	case ref.KFun:
		ps := make([]*types.Type, len(t.Params))
		for i, p := range t.Params {
			ps[i] = toType(p, vars)
		}
		return types.Fun("fn", ps, toType(t.Ret, vars))
	}
	panic("bridge: unknown ref type")
}

// ToFunType converts a (possibly polymorphic) signature; one fresh type
// variable per variable name.
func ToFunType(name string, params []*ref.Ty, ret *ref.Ty) *types.Type {
	vars := map[string]*types.Type{}
	memo := map[*ref.Ty]*types.Type{}
	ps := make([]*types.Type, len(params))
	for i, p := range params {
		ps[i] = toTypeM(p, vars, memo)
	}
	return types.Fun(name, ps, toTypeM(ret, vars, memo))
}

// FromType reads a real type into a reference type. It never trusts the
// node: a nil or unknown kind is an error.
func FromType(t *types.Type) (rt *ref.Ty, err error) {
	defer func() {
		if r := recover(); r != nil {
			rt, err = nil, fmt.Errorf("reading type: %v", r)
		}
	}()
	return fromType(t, 0), nil
}

func fromType(t *types.Type, depth int) *ref.Ty {
	if t == nil {
		panic("nil type")
	}
	if depth > 200 {
		panic("type too deep (cyclic?)")
	}
	switch t.Kind {
	case types.KNum:
		return ref.TNum
	case types.KStr:
		return ref.TStr
	case types.KBool:
		return ref.TBool
	case types.KTime:
		return ref.TTime
	case types.KBot:
		return ref.TBot
	case types.KTyVar:
		return ref.TVar(t.TyVar().Name)
	case types.KList:
		return ref.TList(fromType(t.List().El, depth+1))
	case types.KMaybe:
		return ref.TMaybe(fromType(t.Maybe().Elem, depth+1))
	case types.KMap:
		return ref.TMap(fromType(t.Map().Key, depth+1), fromType(t.Map().Val, depth+1))
	case types.KObj:
		o := t.Obj()
		fs := make([]ref.Fld, len(o.Fields))
		for i, f := range o.Fields {
			fs[i] = ref.Fld{Name: f.Name, T: fromType(f.Val, depth+1)}
			if j, ok := o.Index[f.Name]; !ok || j != i {
				panic(fmt.Sprintf("object index inconsistent for field %q", f.Name))
			}
		}
		if len(o.Index) != len(o.Fields) {
			panic("object index size differs from field count")
		}
		return &ref.Ty{K: ref.KObj, Fs: fs}
	case types.KFun:
		f := t.Fun()
		ps := make([]*ref.Ty, len(f.Param))
		for i, p := range f.Param {
			ps[i] = fromType(p, depth+1)
		}
		return ref.TFun(ps, fromType(f.Return, depth+1))
	}
	panic(fmt.Sprintf("unexpected kind %d", int(t.Kind)))
}

// ToVal builds a real value from a reference value, using the value's own
// type (so a list may hold objects whose own field order differs from the
// list's declared element type, exactly like literals and host data do).
func ToVal(v *ref.V) *val.Val {
	switch v.T.K {
	case ref.KNum:
		return val.Num(v.N)
	case ref.KStr:
		return val.Str(v.S)
	case ref.KBool:
		return val.Bool(v.B)
	case ref.KTime:
		return val.Time(v.Tm)
	case ref.KList:
		l := val.List(ToType(v.T).List(), len(v.L)).List()
		for i, x := range v.L {
			l.V[i] = ToVal(x)
		}
		return l.Vl()
	case ref.KMap:
		m := val.Map(ToType(v.T).Map()).Map()
		for _, kv := range v.M {
			m.V[ToVal(kv.K).Key()] = ToVal(kv.V)
		}
		return m.Vl()
	case ref.KObj:
		o := val.Obj(ToType(v.T).Obj()).Obj()
		for i, x := range v.O {
			o.V[i] = ToVal(x)
		}
		return o.Vl()
	case ref.KMaybe:
		if v.P == nil {
			return val.Nothing(ToType(v.T.El))
		}
		return val.Just(ToType(v.T.El), ToVal(v.P))
	case ref.KFun:
		// a pure function value bound in the environment (dynamic callee)
		fn := v.Fn
		rt := v.T.Ret
		return val.Fun(ToType(v.T), func(args ...*val.Val) *val.Val {
			rargs := make([]ref.Arg, len(args))
			for i, a := range args {
				rv, err := FromVal(a, nil)
				if err != nil {
					panic(fmt.Errorf("verif: ill-formed argument to a function value: %v", err))
				}
				rargs[i] = ref.Arg{V: rv}
			}
			if fn == nil || fn.Impl == nil {
				panic("verif: function value without body was called")
			}
			return ToVal(fn.Impl(&ref.Evaluator{}, rt, rargs))
		})
	}
	panic("bridge: cannot convert " + v.T.Canon())
}

// IllFormed describes a run-time value that does not have the type its
// container (or the checker) declares.
type IllFormed struct {
	Path string
	Msg  string
}

func (e *IllFormed) Error() string { return e.Path + ": " + e.Msg }

// FromVal deep-reads a real value. `declared` is the type the context
// promises (inferred type at the root, component types below); every node
// must be non-nil, carry a type equal to the declared one, and have
// components that recursively satisfy the container's declared component
// types. Field values are located through the value's OWN field names.
func FromVal(v *val.Val, declared *types.Type) (rv *ref.V, err error) {
	defer func() {
		if r := recover(); r != nil {
			if ie, ok := r.(*IllFormed); ok {
				rv, err = nil, ie
				return
			}
			rv, err = nil, &IllFormed{"?", fmt.Sprintf("panic while reading value: %v", r)}
		}
	}()
	return fromVal(v, declared, "$", 0), nil
}

func ill(path, format string, a ...interface{}) {
	panic(&IllFormed{path, fmt.Sprintf(format, a...)})
}

func fromVal(v *val.Val, declared *types.Type, path string, depth int) *ref.V {
	if v == nil {
		ill(path, "nil value")
	}
	if v.Type == nil {
		ill(path, "value without type")
	}
	if depth > 300 {
		ill(path, "value too deep (cyclic?)")
	}
	own := fromType(v.Type, 0)
	if declared != nil {
		dt := fromType(declared, 0)
		if !ref.Eq(own, dt) {
			ill(path, "value of type %s where %s is declared", own.Canon(), dt.Canon())
		}
		// the real notion of equality must agree with the reference one
		if !types.Equals(declared, v.Type) || !types.Equals(v.Type, declared) {
			ill(path, "types.Equals rejects structurally equal types %s / %s", own.Canon(), dt.Canon())
		}
	}
	switch v.Type.Kind {
	case types.KNum:
		return ref.VNum(v.Num().V)
	case types.KStr:
		return ref.VStr(v.Str().V)
	case types.KBool:
		return ref.VBool(v.Bool().V)
	case types.KTime:
		return ref.VTime(v.Time().V)
	case types.KList:
		out := &ref.V{T: own}
		el := v.Type.List().El
		for i, x := range v.List().V {
			out.L = append(out.L, fromVal(x, el, fmt.Sprintf("%s[%d]", path, i), depth+1))
		}
		return out
	case types.KMap:
		out := &ref.V{T: own}
		mt := v.Type.Map()
		for k, x := range v.Map().V {
			kv := keyToVal(k, mt.Key, path)
			xv := fromVal(x, mt.Val, fmt.Sprintf("%s[%s]", path, k.String()), depth+1)
			if _, dup := out.MapGet(kv); dup {
				ill(path, "two map entries with the same key %s", k.String())
			}
			out.MapPut(kv, xv)
		}
		return out
	case types.KObj:
		ot := v.Type.Obj()
		vs := v.Obj().V
		if len(vs) != len(ot.Fields) {
			ill(path, "object has %d slots for %d fields", len(vs), len(ot.Fields))
		}
		out := &ref.V{T: own}
		for i, f := range ot.Fields {
			out.O = append(out.O, fromVal(vs[i], f.Val, path+"."+f.Name, depth+1))
		}
		return out
	case types.KMaybe:
		out := &ref.V{T: own}
		if p := v.Maybe().V; p != nil {
			out.P = fromVal(p, v.Type.Maybe().Elem, path+"?", depth+1)
		}
		return out
	case types.KFun:
		return &ref.V{T: own}
	}
	ill(path, "unexpected kind %d", int(v.Type.Kind))
	return nil
}

// ToTypeShared converts with a caller-supplied variable table, so that the
// same variable name maps to the same real type variable across calls; all
// composite nodes are fresh.
func ToTypeShared(t *ref.Ty, vars map[string]*types.Type) *types.Type { return toType(t, vars) }
