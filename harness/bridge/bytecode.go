package bridge

import (
	"fmt"

	"github.com/goghcrow/yae/types"
	"github.com/goghcrow/yae/val"
	"github.com/goghcrow/yae/vm"
)

// The harness's own description of the instruction set: operand layout and
// stack effect per mnemonic. Opcode numbers are taken from the hook's name
// table, the meaning from this table only.
type insSpec struct {
	operands string // sequence of: 'c' u16 constant, 'n' u16 count/target, 'b' u8
	pop      int    // -1: depends on operands
	push     int
}

var insTable = map[string]insSpec{
	"OP_NOP": {"", 0, 0}, "OP_RETURN": {"", 1, 0},
	"OP_CONST": {"c", 0, 1}, "OP_LOAD": {"c", 0, 1},
	"OP_ADD_NUM": {"", 0, 0}, "OP_SUB_NUM": {"", 1, 1},
	"OP_ABS_NUM": {"", 1, 1}, "OP_CEIL_NUM": {"", 1, 1}, "OP_FLOOR_NUM": {"", 1, 1}, "OP_ROUND_NUM": {"", 1, 1},
	"OP_LOGICAL_NOT": {"", 1, 1}, "OP_LEN_STR": {"", 1, 1}, "OP_LEN_LIST": {"", 1, 1}, "OP_LEN_MAP": {"", 1, 1},
	"OP_STRTOTIME_STR": {"", 1, 1},
	"OP_NEW_LIST":      {"cn", -1, 1}, "OP_NEW_MAP": {"cn", -1, 1}, "OP_NEW_OBJ": {"c", -1, 1},
	"OP_LIST_LOAD": {"", 2, 1}, "OP_MAP_LOAD": {"", 2, 1}, "OP_OBJ_LOAD": {"c", 1, 1},
	"OP_CALL_BY_VALUE": {"cb", -1, 1}, "OP_CALL_BY_NEED": {"cb", -1, 1}, "OP_DYNAMIC_CALL": {"b", -1, 1},
	"OP_GET_MAYBE": {"", 2, 1},
	"OP_IF_TRUE":   {"n", 1, 0}, "OP_JUMP": {"n", 0, 0},
}

func init() {
	for _, n := range []string{"ADD_NUM_NUM", "ADD_STR_STR", "SUB_NUM_NUM", "SUB_TIME_TIME", "MUL_NUM_NUM", "DIV_NUM_NUM",
		"MOD_NUM_NUM", "EXP_NUM_NUM", "MIN_NUM_NUM", "MAX_NUM_NUM",
		"EQ_NUM_NUM", "EQ_BOOL_BOOL", "EQ_STR_STR", "EQ_TIME_TIME", "EQ_LIST_LIST", "EQ_MAP_MAP",
		"NE_NUM_NUM", "NE_BOOL_BOOL", "NE_STR_STR", "NE_TIME_TIME", "NE_LIST_LIST", "NE_MAP_MAP",
		"LT_NUM_NUM", "LT_TIME_TIME", "LE_NUM_NUM", "LE_TIME_TIME", "GT_NUM_NUM", "GT_TIME_TIME", "GE_NUM_NUM", "GE_TIME_TIME"} {
		insTable["OP_"+n] = insSpec{"", 2, 1}
	}
}

// BCInfo summarises a verified program.
type BCInfo struct {
	Instructions int // in the top-level code
	MaxBody      int // largest instruction count of any single activation (top level or thunk)
	Thunks       int
	Jumps        int
	MaxDepth     int
	CodeBytes    int
	PoolSize     int
}

type ins struct {
	off  int
	name string
	c    int // constant index (-1 none)
	n    int // count / target
	b    int // u8
	next int
}

type verifier struct {
	p      *vm.VerifProgram
	info   *BCInfo
	thunks map[int]bool // constant index -> body verified
	depth  int
}

// VerifyProgram decodes and abstractly interprets an emitted program
// (including the bodies of deferred arguments) and returns the first
// structural defect found.
func VerifyProgram(p *vm.VerifProgram) (info *BCInfo, err error) {
	defer func() {
		if r := recover(); r != nil {
			err = fmt.Errorf("verifier panic: %v", r)
		}
	}()
	v := &verifier{p: p, info: &BCInfo{CodeBytes: len(p.Code), PoolSize: len(p.Pool)}, thunks: map[int]bool{}}
	n, err := v.body(p.Code, "main")
	if err != nil {
		return nil, err
	}
	v.info.Instructions = n
	return v.info, nil
}

func (v *verifier) decode(code []byte, where string) ([]ins, map[int]int, error) {
	var out []ins
	at := map[int]int{}
	i := 0
	for i < len(code) {
		op := int(code[i])
		if op >= len(v.p.Names) {
			return nil, nil, fmt.Errorf("%s@%d: unknown opcode %d", where, i, op)
		}
		name := v.p.Names[op]
		spec, ok := insTable[name]
		if !ok {
			return nil, nil, fmt.Errorf("%s@%d: opcode %s not in the instruction-set description", where, i, name)
		}
		in := ins{off: i, name: name, c: -1}
		j := i + 1
		for _, o := range spec.operands {
			switch o {
			case 'c', 'n':
				if j+2 > len(code) {
					return nil, nil, fmt.Errorf("%s@%d: %s operand runs past the end of the code", where, i, name)
				}
				x := int(code[j])<<8 | int(code[j+1])
				if o == 'c' {
					if x >= len(v.p.Pool) {
						return nil, nil, fmt.Errorf("%s@%d: %s constant index %d outside the pool (%d)", where, i, name, x, len(v.p.Pool))
					}
					in.c = x
				} else {
					in.n = x
				}
				j += 2
			case 'b':
				if j+1 > len(code) {
					return nil, nil, fmt.Errorf("%s@%d: %s operand runs past the end of the code", where, i, name)
				}
				in.b = int(code[j])
				j++
			}
		}
		in.next = j
		at[i] = len(out)
		out = append(out, in)
		i = j
	}
	return out, at, nil
}

// slot kinds of the abstract stack
const (
	slotAny = -1 // an ordinary value; otherwise: constant index of a thunk
)

func (v *verifier) constKind(in ins, where string) (interface{}, error) {
	return v.p.Pool[in.c], nil
}

func (v *verifier) body(code []byte, where string) (int, error) {
	v.depth++
	defer func() { v.depth-- }()
	if v.depth > 64 {
		return 0, fmt.Errorf("%s: thunk nesting too deep", where)
	}
	list, at, err := v.decode(code, where)
	if err != nil {
		return 0, err
	}
	if len(list) == 0 {
		return 0, fmt.Errorf("%s: empty code", where)
	}
	if list[len(list)-1].name != "OP_RETURN" {
		return 0, fmt.Errorf("%s: last instruction is %s, not OP_RETURN", where, list[len(list)-1].name)
	}
	if len(list) > v.info.MaxBody {
		v.info.MaxBody = len(list)
	}
	// abstract interpretation in increasing offset order: every jump is
	// checked to go forward first, so all predecessors of an instruction are
	// processed before it. The abstract stack is a persistent list (O(1) push /
	// pop, shared between paths).
	type cell struct {
		kind  int
		next  *cell
		depth int
	}
	depthOf := func(c *cell) int {
		if c == nil {
			return 0
		}
		return c.depth
	}
	states := make([]*cell, len(list))
	reached := make([]bool, len(list))
	reached[0] = true
	flow := func(to int, st *cell, from ins) error {
		if !reached[to] {
			reached[to] = true
			states[to] = st
			return nil
		}
		if depthOf(states[to]) != depthOf(st) {
			return fmt.Errorf("%s@%d: stack depth %d on one path and %d on another (edge from @%d)", where, list[to].off, depthOf(states[to]), depthOf(st), from.off)
		}
		// merge slot kinds down to the shared tail
		a, b := states[to], st
		var diff []int
		differs := false
		for a != b {
			k := a.kind
			if a.kind != b.kind {
				k = slotAny
				differs = true
			}
			diff = append(diff, k)
			a, b = a.next, b.next
		}
		if differs {
			tailc := a
			for i := len(diff) - 1; i >= 0; i-- {
				tailc = &cell{diff[i], tailc, depthOf(tailc) + 1}
			}
			states[to] = tailc
		}
		return nil
	}
	for k := 0; k < len(list); k++ {
		if !reached[k] {
			return 0, fmt.Errorf("%s@%d: unreachable instruction %s", where, list[k].off, list[k].name)
		}
		in := list[k]
		st := states[k]
		states[k] = nil
		pop := func(n int) ([]int, error) {
			if n > depthOf(st) {
				return nil, fmt.Errorf("%s@%d: %s pops %d with stack depth %d (underflow)", where, in.off, in.name, n, depthOf(st))
			}
			top := make([]int, n)
			for i := n - 1; i >= 0; i-- {
				top[i] = st.kind
				st = st.next
			}
			return top, nil
		}
		push := func(kind int) { st = &cell{kind, st, depthOf(st) + 1} }
		spec := insTable[in.name]
		switch in.name {
		case "OP_RETURN":
			if depthOf(st) != 1 {
				return 0, fmt.Errorf("%s@%d: stack depth %d at OP_RETURN (must be exactly 1)", where, in.off, depthOf(st))
			}
			if k != len(list)-1 {
				return 0, fmt.Errorf("%s@%d: OP_RETURN before the end of the code", where, in.off)
			}
			continue
		case "OP_CONST":
			c := v.p.Pool[in.c]
			cv, ok := c.(*val.Val)
			if !ok || cv == nil {
				return 0, fmt.Errorf("%s@%d: OP_CONST operand %d is %T, not a value", where, in.off, in.c, c)
			}
			if vm.VerifIsThunk(cv) {
				push(in.c)
			} else {
				if cv.Type == nil {
					return 0, fmt.Errorf("%s@%d: constant %d has no type", where, in.off, in.c)
				}
				push(slotAny)
			}
		case "OP_LOAD", "OP_OBJ_LOAD":
			if _, ok := v.p.Pool[in.c].(string); !ok {
				return 0, fmt.Errorf("%s@%d: %s operand %d is %T, not a name", where, in.off, in.name, in.c, v.p.Pool[in.c])
			}
			if in.name == "OP_OBJ_LOAD" {
				if _, err := pop(1); err != nil {
					return 0, err
				}
			}
			push(slotAny)
		case "OP_NEW_LIST", "OP_NEW_MAP", "OP_NEW_OBJ":
			ty, ok := v.p.Pool[in.c].(*types.Type)
			if !ok || ty == nil {
				return 0, fmt.Errorf("%s@%d: %s operand %d is %T, not a type", where, in.off, in.name, in.c, v.p.Pool[in.c])
			}
			n := in.n
			switch in.name {
			case "OP_NEW_LIST":
				if ty.Kind != types.KList {
					return 0, fmt.Errorf("%s@%d: OP_NEW_LIST with type %s", where, in.off, ty)
				}
			case "OP_NEW_MAP":
				if ty.Kind != types.KMap {
					return 0, fmt.Errorf("%s@%d: OP_NEW_MAP with type %s", where, in.off, ty)
				}
				n = 2 * in.n
			case "OP_NEW_OBJ":
				if ty.Kind != types.KObj {
					return 0, fmt.Errorf("%s@%d: OP_NEW_OBJ with type %s", where, in.off, ty)
				}
				n = len(ty.Obj().Fields)
			}
			args, err := pop(n)
			if err != nil {
				return 0, err
			}
			for ai, a := range args {
				if a != slotAny {
					return 0, fmt.Errorf("%s@%d: deferred code stored as member %d of a literal", where, in.off, ai)
				}
			}
			push(slotAny)
		case "OP_CALL_BY_VALUE", "OP_CALL_BY_NEED":
			fv, ok := v.p.Pool[in.c].(*val.Val)
			if !ok || fv == nil || fv.Type == nil || fv.Type.Kind != types.KFun {
				return 0, fmt.Errorf("%s@%d: %s operand %d is not a function value", where, in.off, in.name, in.c)
			}
			if np := len(fv.Type.Fun().Param); np != in.b {
				return 0, fmt.Errorf("%s@%d: %s passes %d arguments to a function of %d parameters", where, in.off, in.name, in.b, np)
			}
			if lazy := fv.Fun().Lazy; lazy != (in.name == "OP_CALL_BY_NEED") {
				return 0, fmt.Errorf("%s@%d: %s used for a function with Lazy=%v", where, in.off, in.name, lazy)
			}
			args, err := pop(in.b)
			if err != nil {
				return 0, err
			}
			if in.name == "OP_CALL_BY_NEED" {
				for ai, a := range args {
					if a == slotAny {
						return 0, fmt.Errorf("%s@%d: OP_CALL_BY_NEED argument %d is not a deferred-code constant", where, in.off, ai)
					}
					if !v.thunks[a] {
						v.thunks[a] = true
						v.info.Thunks++
						tc := vm.VerifThunkCode(v.p.Pool[a].(*val.Val))
						if _, err := v.body(tc, fmt.Sprintf("%s>thunk#%d", where, a)); err != nil {
							return 0, err
						}
					}
				}
			} else {
				for ai, a := range args {
					if a != slotAny {
						return 0, fmt.Errorf("%s@%d: deferred code passed as strict argument %d", where, in.off, ai)
					}
				}
			}
			push(slotAny)
		case "OP_DYNAMIC_CALL":
			if _, err := pop(in.b + 1); err != nil {
				return 0, err
			}
			push(slotAny)
		case "OP_IF_TRUE", "OP_JUMP":
			if spec.pop > 0 {
				if _, err := pop(spec.pop); err != nil {
					return 0, err
				}
			}
			v.info.Jumps++
			ti, ok := at[in.n]
			if !ok {
				return 0, fmt.Errorf("%s@%d: %s target %d is not an instruction boundary inside the code (len %d)", where, in.off, in.name, in.n, len(code))
			}
			if in.n <= in.off {
				return 0, fmt.Errorf("%s@%d: %s jumps backwards (or to itself) to %d", where, in.off, in.name, in.n)
			}
			if err := flow(ti, st, in); err != nil {
				return 0, err
			}
			if in.name == "OP_JUMP" {
				continue
			}
		default:
			args, err := pop(spec.pop)
			if err != nil {
				return 0, err
			}
			for ai, a := range args {
				if a != slotAny {
					return 0, fmt.Errorf("%s@%d: deferred code used as operand %d of %s", where, in.off, ai, in.name)
				}
			}
			for i := 0; i < spec.push; i++ {
				push(slotAny)
			}
		}
		if depthOf(st) > v.info.MaxDepth {
			v.info.MaxDepth = depthOf(st)
		}
		if k+1 >= len(list) {
			return 0, fmt.Errorf("%s@%d: execution falls off the end of the code", where, in.off)
		}
		if err := flow(k+1, st, in); err != nil {
			return 0, err
		}
	}
	return len(list), nil
}
